"""Generators of parse results for the printer / reader checks.

* grammar-licensed derivations: an index result-category -> [(x, y, CombinatorResult)] is built by running the REAL
  grammar over the shipped seen-rule pairs; random top-down expansion from a root category (with the shipped unary
  steps) yields trees whose nodes carry the very CombinatorResult that licensed them;
* arbitrary well-formed trees (random shape, categories, labels, head flags) via Tree.make_*;
* hostile tokens.
"""
import functools
from collections import defaultdict

from vlib import env, gens, refcat

HOSTILE = list("()[]{}<>&'\"/\\|,.;:-_*=#!?%$@^~`+")
SPECIAL = ['ID=7', 'UUID=4f2a', '#1', 'a#b', 'x[conj]', 'a)(b', '->-', '-<-', '-a>b-', '<->', '()', '{}', '[]', '){', 'f(x)', ':-)', '1)a', 'km/', 'a/b/', '<b>', '-', '--', '&', '&amp;', '_(', '*']
BRACKET_WORDS = ['(', ')', '[', ']', '{', '}', '-LRB-', '-RRB-', '-LCB-', '-RCB-', '-LSB-', '-RSB-']
CJK = list('日本語の文章東京は晴れ猫犬')
COMBINING = ['é', 'ñ', 'ä']
PLAIN = ['the', 'cat', 'saw', 'Mary', 'quickly', 'of', 'and', 'paper', 'I', 'x1', 'U.S.', "don't", 'co-op', '3,000', 'a/b', 'AT&T']


def hostile_token(rng, domain='any'):
    """printable non-blank text; domain restricts to what a format can represent at all (DESIGN 9.1)"""
    for _ in range(100):
        r = rng.random()
        if r < 0.008:
            w = rng.choice(('-', '.', ',', '(', ')', '!', '()', '-.', 'a-')) * rng.randint(33, 70)     # long runs of one mark
        elif r < 0.06:
            w = rng.choice(SPECIAL)
        elif r < 0.35:
            w = rng.choice(PLAIN)
        elif r < 0.5:
            w = rng.choice(BRACKET_WORDS)
        elif r < 0.6:
            w = ''.join(rng.choice(CJK) for _ in range(rng.randint(1, 3)))
        elif r < 0.65:
            w = rng.choice(COMBINING) + rng.choice(PLAIN)
        else:
            k = rng.randint(1, 5)
            w = ''.join(rng.choice(HOSTILE) if rng.random() < 0.55 else rng.choice('abcXYZ09é') for _ in range(k))
        if token_ok(w, domain):
            return w
    return 'w'


def token_ok(w, domain):
    if not w or any(ch.isspace() for ch in w):
        return False
    if domain == 'any':
        return True
    if domain == 'nobackslash':
        return '\\' not in w
    if domain == 'auto':            # C08: statement's domain + CCGbank repair patterns of read_auto
        return '\\' not in w and not w.endswith(')[conj]') and not w.endswith('][conj]') and w != '((S[b]\\NP)/NP)/'
    if domain == 'ptb':             # a whole-token bracket is escaped; otherwise no '(' at the start and no ')' at the end
        if '\\' in w:
            return False
        return w in ('(', ')') or (not w.startswith('(') and not w.endswith(')'))
    if domain == 'ja':
        return not any(c in w for c in '/{}\\') and w not in BRACKET_WORDS
    if domain == 'xml':
        return True
    if domain == 'all-en':        # representable by every format of the English CLI list (braces and slashes are fine there)
        return token_ok(w, 'ptb') and token_ok(w, 'auto')
    if domain == 'all':           # representable by every format at once
        return token_ok(w, 'ja') and token_ok(w, 'ptb') and token_ok(w, 'auto')
    raise ValueError(domain)


def en_token(rng, domain='any', attr_domain=None):
    from depccg.types import Token
    a = attr_domain or domain
    return Token(word=hostile_token(rng, domain), pos=rng.choice(('NN', 'VBZ', 'DT', 'IN', ',', '.', '-LRB-', 'PRP$', 'XX', '(', ')', '<sym>', '[', 'a>b', 'POS', 'ID=1')),
                 entity=rng.choice(('O', 'I-ORG', 'B-DATE', 'XX')), lemma=(lambda l: l if rng.random() < 0.4 else l.lower())(hostile_token(rng, a)),
                 chunk=rng.choice(('XX', 'I-NP', 'B-VP')))


def ja_token(rng, domain='ja'):
    from depccg.types import Token
    w = hostile_token(rng, domain)
    surf = w if rng.random() > 0.15 else hostile_token(rng, domain)      # e.g. a width-normalised word with the raw surface kept
    return Token(word=w, surf=surf, pos=rng.choice(('名詞', '動詞', '助詞', '記号')), pos1=rng.choice(('一般', '自立', '*', '格助詞')),
                 pos2=rng.choice(('*', '一般')), pos3='*', inflectionForm=rng.choice(('*', '基本形', '連用形')),
                 inflectionType=rng.choice(('*', '一段', '五段・ラ行')), reading=rng.choice(('ネコ', '*')),
                 base=hostile_token(rng, domain))


# ---------------------------------------------------------------------- grammar index
class GrammarIndex:
    def __init__(self, lang):
        from depccg.cat import Category
        env.install(lang)
        self.lang = lang
        if lang == 'en':
            from depccg.grammar import en as G
            inv_name, seen_names, unary_name = 'en', ('en', 'en_rebank'), 'en'
            self.roots = [Category.parse(s) for s in 'S[dcl]|S[wq]|S[q]|S[qem]|NP'.split('|')]
        else:
            from depccg.grammar import ja as G
            inv_name, seen_names, unary_name = 'ja', ('ja',), 'ja'
            from vlib import schemas_ja
            self.roots = [refcat.from_ref(r) for r in schemas_ja.ROOTS]
        self.G = G
        self.inventory = [refcat.from_ref(v) for v in gens.inventory(inv_name)]
        self.inv_set = set(self.inventory)
        self.unary_table = defaultdict(list)
        for a, b in gens.unary_pairs(unary_name):
            self.unary_table[Category.parse(a)].append(Category.parse(b))
        self.binary_index = defaultdict(list)       # result cat -> [(x, y, CombinatorResult)]
        self.labels = defaultdict(int)
        pairs = []
        for nm in seen_names:
            pairs += gens.seen_pairs(nm)
        seen = set()
        for a, b in pairs:
            if (a, b) in seen:
                continue
            seen.add((a, b))
            x, y = Category.parse(a), Category.parse(b)
            for r in G.apply_binary_rules(x, y):
                self.binary_index[r.cat].append((x, y, r))
                self.labels[(r.op_string, r.op_symbol)] += 1
        self.unary_index = defaultdict(list)        # result cat -> [(x, CombinatorResult)]
        for x in list(self.unary_table):
            for r in G.apply_unary_rules(x, self.unary_table):
                self.unary_index[r.cat].append((x, r))
                self.labels[(r.op_string, r.op_symbol)] += 1
        # keep only rules whose children can be derived from the tag inventory (no dead ends, realistic derivations)
        all_labels = dict(self.labels)
        gen_set = set(self.inv_set)
        changed = True
        while changed:
            changed = False
            for cat, lst in self.binary_index.items():
                if cat not in gen_set and any(x in gen_set and y in gen_set for x, y, _ in lst):
                    gen_set.add(cat)
                    changed = True
            for cat, lst in self.unary_index.items():
                if cat not in gen_set and any(x in gen_set for x, _ in lst):
                    gen_set.add(cat)
                    changed = True
        self.generable = gen_set
        for cat in list(self.binary_index):
            self.binary_index[cat] = [(x, y, r) for x, y, r in self.binary_index[cat] if x in gen_set and y in gen_set]
            if not self.binary_index[cat]:
                del self.binary_index[cat]
        for cat in list(self.unary_index):
            self.unary_index[cat] = [(x, r) for x, r in self.unary_index[cat] if x in gen_set]
            if not self.unary_index[cat]:
                del self.unary_index[cat]
        self.labels = defaultdict(int)
        for lst in self.binary_index.values():
            for _, _, r in lst:
                self.labels[(r.op_string, r.op_symbol)] += 1
        for lst in self.unary_index.values():
            for _, r in lst:
                self.labels[(r.op_string, r.op_symbol)] += 1
        self.labels_unreachable = sorted(set(all_labels) - set(self.labels))
        self.by_label = defaultdict(list)
        for cat, lst in self.binary_index.items():
            for x, y, r in lst:
                self.by_label[(r.op_string, r.op_symbol)].append((x, y, r))
        # binary rules one of whose children can be produced by a unary step with a given label
        self.unary_by_label = defaultdict(list)
        self.unary_hosts = defaultdict(list)
        for ucat, lst in self.unary_index.items():
            for x, r in lst:
                self.unary_by_label[(r.op_string, r.op_symbol)].append((x, r))
        for cat, lst in self.binary_index.items():
            for x, y, rr in lst:
                for side, c in ((0, x), (1, y)):
                    for ux, ur in self.unary_index.get(c, ()):
                        self.unary_hosts[(ur.op_string, ur.op_symbol)].append((x, y, rr, side, ux, ur))

    def binary(self, x, y):
        return self.G.apply_binary_rules(x, y)

    def unary(self, x):
        return self.G.apply_unary_rules(x, self.unary_table)


@functools.lru_cache(None)
def index(lang):
    return GrammarIndex(lang)


def licensed_tree(rng, lang, token_fn, max_leaves=9, want_label=None, tokens=None, hard_max=None):
    """random grammar-licensed derivation; returns depccg Tree (nodes carry the licensing result's label/symbol/head)"""
    from depccg.tree import Tree
    ix = index(lang)
    budget = [max_leaves]
    toks = []

    def leaf(cat):
        budget[0] -= 1
        tok = token_fn(rng) if tokens is None else tokens[len(toks)]
        toks.append(tok)
        return Tree.make_terminal(tok, cat)

    def expand(cat, depth, at_root):
        can_leaf = cat in ix.inv_set
        rules = ix.binary_index.get(cat, ())
        urules = ix.unary_index.get(cat, ()) if not at_root else ()
        if budget[0] <= 1 or depth > 6:
            if can_leaf:
                return leaf(cat)
        if depth > 14:
            raise LookupError('too deep')
        choices = []
        if rules:
            choices += ['b'] * 6
        if urules and depth < 6:
            choices += ['u'] * 2
        if can_leaf and (depth > 0 or not rules):
            choices += ['l'] * (2 + depth * 2)
        if not choices:
            raise LookupError(cat)
        c = rng.choice(choices)
        if c == 'l':
            return leaf(cat)
        if c == 'u':
            x, r = rng.choice(urules)
            child = expand(x, depth + 1, False)
            return Tree.make_unary(cat, child, r.op_string, r.op_symbol)
        x, y, r = rng.choice(rules)
        left = expand(x, depth + 1, False)
        right = expand(y, depth + 1, False)
        return Tree.make_binary(cat, left, right, r.op_string, r.op_symbol, r.head_is_left)

    last = None
    for _ in range(300):
        budget[0] = max_leaves
        toks.clear()
        try:
            if want_label is not None and ix.by_label.get(want_label):
                x, y, r = rng.choice(ix.by_label[want_label])
                t = Tree.make_binary(r.cat, expand(x, 1, False), expand(y, 1, False), r.op_string, r.op_symbol, r.head_is_left)
            elif want_label is not None and ix.unary_hosts.get(want_label):
                x, y, rr, side, ux, ur = rng.choice(ix.unary_hosts[want_label])
                kids = []
                for k, c in enumerate((x, y)):
                    if k == side:
                        kids.append(Tree.make_unary(c, expand(ux, 2, False), ur.op_string, ur.op_symbol))
                    else:
                        kids.append(expand(c, 1, False))
                t = Tree.make_binary(rr.cat, kids[0], kids[1], rr.op_string, rr.op_symbol, rr.head_is_left)
            elif want_label is not None and ix.unary_by_label.get(want_label):
                ux, ur = rng.choice(ix.unary_by_label[want_label])
                t = Tree.make_unary(ur.cat, expand(ux, 1, False), ur.op_string, ur.op_symbol)
            elif want_label is None and tokens is None and rng.random() < 0.08 and ix.unary_index:
                ucat = rng.choice([c for c in ix.unary_index])
                ux, ur = rng.choice(ix.unary_index[ucat])
                if ux not in ix.inv_set:
                    raise LookupError(ux)
                t = Tree.make_unary(ucat, leaf(ux), ur.op_string, ur.op_symbol)      # one-word sentence: unary step at the root
            else:
                root = rng.choice(ix.roots)
                t = expand(root, 0, True)
            if tokens is not None and len(toks) != len(tokens):
                continue
            if hard_max is not None and len(toks) > hard_max:
                continue
            return t
        except (LookupError, RecursionError, IndexError) as e:
            last = e
            continue
    raise LookupError(f'could not generate a licensed tree: last error {last!r}')


def arbitrary_tree(rng, lang, token_fn, max_leaves=7, labels=None, tokens=None):
    """arbitrary well-formed tree: random shape, inventory categories, random labels and head flags"""
    from depccg.tree import Tree
    ix = index(lang)
    labels = labels or (list(ix.labels) + list(ix.labels_unreachable))      # arbitrary trees may carry every label the grammar has
    ulabels = [l for l in labels if l[1] == '<un>' or l[0].startswith('AD')] or [('lex', '<un>')]
    blabels = [l for l in labels if l not in ulabels] or labels
    functors = [c for c in ix.inventory if c.is_functor]
    n = rng.randint(1, max_leaves) if tokens is None else len(tokens)
    used = [0]

    def tok():
        if tokens is not None:
            t = tokens[used[0]]
        else:
            t = token_fn(rng)
        used[0] += 1
        return t

    def build(k, at_root):
        cat = rng.choice(ix.inventory)
        if k == 1:
            if rng.random() < 0.2:
                lab = rng.choice(ulabels)
                return Tree.make_unary(cat, Tree.make_terminal(tok(), rng.choice(ix.inventory)), lab[0], lab[1])
            return Tree.make_terminal(tok(), cat)
        if (rng.random() < 0.12 and not at_root) or (at_root and rng.random() < 0.06):
            # (a unary step at the root occurs in parser output for one-word sentences; arbitrary trees may have it anywhere)
            lab = rng.choice(ulabels)
            child = build(k, False)
            if rng.random() < 0.2:
                cat = child.cat          # a unary step may keep the category (treebank files have such nodes)
            return Tree.make_unary(cat, child, lab[0], lab[1])
        j = rng.randint(1, k - 1)
        lab = rng.choice(blabels)
        if lab[0] == 'conj':
            cat = rng.choice(functors)          # conjunction results are functors (y\y)
        left = build(j, False)
        right = build(k - j, False)
        return Tree.make_binary(cat, left, right, lab[0], lab[1], rng.random() < 0.5)
    return build(n, True)


def make_batch(rng, lang, domain='any', max_sentences=4, max_nbest=3, licensed_share=0.6, max_leaves=7, attr_domain=None):
    """[[ScoredTree]]: sentences x n-best; the n-best trees of a sentence share their token objects (as parser output does)"""
    from depccg.tree import ScoredTree
    token_fn = (lambda r: en_token(r, domain, attr_domain)) if lang == 'en' else (lambda r: ja_token(r, domain if domain != 'any' else 'ja'))
    if lang == 'ja' and domain == 'any':
        token_fn = lambda r: ja_token(r, 'any')     # noqa: E731
    base_fn, recent = token_fn, []

    def token_fn(r):
        # now and then a word repeats with identical attributes (a different Token object with equal content)
        from depccg.types import Token
        if recent and r.random() < 0.15:
            return Token(**dict(r.choice(recent)))
        t = base_fn(r)
        recent.append(t)
        del recent[:-6]
        return t
    batch = []
    for _ in range(rng.randint(1, max_sentences)):
        if rng.random() < licensed_share:
            first = licensed_tree(rng, lang, token_fn, max_leaves=max_leaves)
        else:
            first = arbitrary_tree(rng, lang, token_fn, max_leaves=max_leaves)
        trees = [first]
        toks = first.tokens
        for _ in range(rng.randint(0, max_nbest - 1)):
            t = None
            if rng.random() < 0.4:
                try:
                    t = licensed_tree(rng, lang, token_fn, max_leaves=len(toks) + 2, tokens=toks)
                except LookupError:
                    t = None
            trees.append(t or arbitrary_tree(rng, lang, token_fn, tokens=toks))
        score = -rng.random() * 10
        scores = [score - i * 0.5 for i in range(len(trees))]
        if rng.random() < 0.25:
            rng.shuffle(scores)          # result lists built by a caller need not be sorted
        batch.append([ScoredTree(t, sc) for t, sc in zip(trees, scores)])
    return batch


def chain_tree(rng, lang, token_fn, n, shape):
    """an n-word derivation that is one chain (right- or left-branching): the deepest tree a sentence of n words can have"""
    from depccg.tree import Tree
    ix = index(lang)
    lab = sorted(l for l in ix.labels if l[1] not in ('<un>',) and not l[0].startswith('AD'))[0]
    cats = ix.inventory
    t = Tree.make_terminal(token_fn(rng), rng.choice(cats))
    for _ in range(n - 1):
        leaf = Tree.make_terminal(token_fn(rng), rng.choice(cats))
        kids = (leaf, t) if shape == 'right' else (t, leaf)
        t = Tree.make_binary(rng.choice(cats), kids[0], kids[1], lab[0], lab[1], lang == 'en')
    return t


class default_recursion_limit:
    """run a block under the interpreter's default recursion limit (the shards raise theirs for their own generators)"""
    def __enter__(self):
        import sys
        self.old = sys.getrecursionlimit()
        sys.setrecursionlimit(1000)

    def __exit__(self, *a):
        import sys
        sys.setrecursionlimit(self.old)
        return False


def tree_dump(tree):
    """canonical, format-independent dump of a depccg Tree (for comparison and fingerprints)"""
    if tree.is_leaf:
        return ('L', str(tree.cat), tuple(sorted(tree.token.items())))
    if tree.is_unary:
        return ('U', str(tree.cat), tree.op_string, tree.op_symbol, tree_dump(tree.children[0]))
    return ('B', str(tree.cat), tree.op_string, tree.op_symbol, bool(tree.head_is_left),
            tree_dump(tree.children[0]), tree_dump(tree.children[1]))


def placeholder():
    """the failure placeholder exactly as parsing.pyx builds it"""
    from depccg.tree import Tree, ScoredTree
    from depccg.cat import Category
    return [ScoredTree(tree=Tree.make_terminal("FAILED", Category.parse("NP")), score=-float('inf'))]

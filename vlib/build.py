"""Builds the C ABI shim around /repo/depccg/parsing.h (plain and ASan+UBSan variants).

The accessor functions are generated from the `cdef extern` block of parsing.pyx: a struct field the
.pyx declares but the header lacks is a compile error here, as it would be in a Cython build.
Cached under /verif/build/<sha256(parsing.h, parsing.pyx, this generator)>/.
"""
import hashlib
import os
import re
import subprocess

from vlib import env
from vlib.runner import Inconclusive

CTYPE = {'bint': 'int', 'unsigned': 'unsigned', 'float': 'float', 'int': 'int', 'double': 'double'}


def parse_extern(pyx_text):
    """struct name -> [(ctype-ish, field)] from the cdef extern blocks."""
    structs = {}
    cur = None
    for line in pyx_text.splitlines():
        m = re.match(r'\s+cdef struct (\w+):', line)
        if m:
            cur = m.group(1)
            structs[cur] = []
            continue
        if cur:
            if not line.strip():
                continue
            if not line.startswith('        '):
                cur = None
                continue
            m = re.match(r'\s+(\w+)\s*(\*?)\s*(\w+)\s*$', line)
            if m:
                structs[cur].append((m.group(1) + m.group(2), m.group(3)))
    return structs


FIXED = r'''
#include <climits>
#include <cstring>
#include <cstdio>
#include <exception>
#include "depccg/parsing.h"

extern "C" {

// ---- cache_type
void *vs_cache_new() { return new cache_type(); }
void vs_cache_free(void *c) { delete static_cast<cache_type *>(c); }
unsigned vs_cache_size(void *c) { return static_cast<cache_type *>(c)->size(); }
// operator[] semantics: a missing key is default-inserted. returns the vector size.
unsigned vs_cache_vec_size(void *c, unsigned first, unsigned second) {
    return (*static_cast<cache_type *>(c))[std::make_pair(first, second)].size();
}
int vs_cache_has(void *c, unsigned first, unsigned second) {
    return static_cast<cache_type *>(c)->count(std::make_pair(first, second)) ? 1 : 0;
}
const combinator_result *vs_cache_at(void *c, unsigned first, unsigned second, unsigned index) {
    auto &v = (*static_cast<cache_type *>(c))[std::make_pair(first, second)];
    if (index >= v.size()) return nullptr;   // undefined behaviour in the real glue; reported by the caller
    return &v[index];
}
unsigned vs_cr_string(const combinator_result *r, int which, char *out, unsigned cap) {
    const std::string &s = which ? r->op_symbol : r->op_string;
    unsigned n = s.size() < cap ? s.size() : cap;
    memcpy(out, s.data(), n);
    return s.size();
}

// ---- vector<combinator_result>
void *vs_cr_new() { return new combinator_result(); }
void vs_cr_free(void *r) { delete static_cast<combinator_result *>(r); }
void vs_cr_set_string(void *r, int which, const char *data, unsigned n) {
    auto *p = static_cast<combinator_result *>(r);
    (which ? p->op_symbol : p->op_string).assign(data, n);
}
void vs_vec_push_back(void *vec, void *r) {
    static_cast<std::vector<combinator_result> *>(vec)->push_back(*static_cast<combinator_result *>(r));
}
unsigned vs_vec_size(void *vec) { return static_cast<std::vector<combinator_result> *>(vec)->size(); }

// ---- unordered_set<unsigned>
void *vs_set_new() { return new std::unordered_set<unsigned>(); }
void vs_set_free(void *s) { delete static_cast<std::unordered_set<unsigned> *>(s); }
void vs_set_insert(void *s, unsigned v) { static_cast<std::unordered_set<unsigned> *>(s)->insert(v); }

// ---- config
void *vs_config_new() { return new config(); }
void vs_config_free(void *c) { delete static_cast<config *>(c); }

// ---- pop hook trace (recorded natively, read by the monitors after the call)
struct vs_event { unsigned step; int accepted; int fin; unsigned cat; float in_score; float out_score;
                  unsigned start; unsigned length; unsigned head; unsigned rule; int has_left; int has_right; };
static std::vector<vs_event> vs_trace;
static int vs_trace_on = 0;
static unsigned long vs_trace_cap = 2000000;
static unsigned long vs_pops = 0, vs_accepts = 0;
static void vs_hook(void *, unsigned step, const parsing::cell_item *it, int accepted) {
    if (accepted < 0) vs_pops++; else vs_accepts++;
    if (vs_trace_on && vs_trace.size() < vs_trace_cap)
        vs_trace.push_back({step, accepted, it->fin ? 1 : 0, it->cat, it->in_score, it->out_score,
                            it->start_of_span, it->span_length, it->head_id, it->rule_id,
                            it->left != nullptr, it->right != nullptr});
}
void vs_trace_enable(int on) {
    vs_trace_on = on;
    parsing::verif::pop_hook = vs_hook;
    parsing::verif::pop_hook_ctx = nullptr;
}
void vs_trace_reset() { vs_trace.clear(); vs_pops = 0; vs_accepts = 0; }
unsigned long vs_trace_size() { return vs_trace.size(); }
unsigned long vs_trace_pops() { return vs_pops; }
unsigned long vs_trace_accepts() { return vs_accepts; }
void vs_trace_copy(vs_event *out) { memcpy(out, vs_trace.data(), vs_trace.size() * sizeof(vs_event)); }
int vs_hook_compiled_in() { return parsing::verif::enabled() ? 1 : 0; }

// ---- parse_sentence
int vs_parse(float *tag_scores, float *dep_scores, unsigned length, void *roots,
             void *binary_callback, void *unary_callback, finalizer_type finalizer, scaffold_type scaffold,
             void *finalizer_args, void *cache, void *cfg, unsigned *status, char *err, unsigned errcap) {
    try {
        *status = parse_sentence(tag_scores, dep_scores, length,
                                 *static_cast<std::unordered_set<unsigned> *>(roots),
                                 binary_callback, unary_callback, finalizer, scaffold, finalizer_args,
                                 static_cast<cache_type *>(cache), static_cast<config *>(cfg));
        return 0;
    } catch (const std::bad_alloc &e) {
        snprintf(err, errcap, "%s", e.what()); return 2;
    } catch (const std::out_of_range &e) {
        snprintf(err, errcap, "%s", e.what()); return 3;
    } catch (const std::exception &e) {
        snprintf(err, errcap, "%s", e.what()); return 1;
    } catch (...) {
        snprintf(err, errcap, "unknown C++ exception"); return 1;
    }
}
'''


def generate(pyx_text):
    structs = parse_extern(pyx_text)
    out = [FIXED]
    for f_type, f in structs.get('cell_item', []):
        if f_type.endswith('*'):
            out.append(f'void *vs_item_get_{f}(void *p) {{ return static_cast<parsing::cell_item *>(p)->{f}; }}')
        else:
            ct = CTYPE[f_type]
            out.append(f'{ct} vs_item_get_{f}(void *p) {{ return static_cast<parsing::cell_item *>(p)->{f}; }}')
    out.append('float vs_item_score(void *p) { return static_cast<parsing::cell_item *>(p)->score(); }')
    for f_type, f in structs.get('combinator_result', []):
        if f_type == 'string':
            continue
        ct = CTYPE[f_type]
        out.append(f'void vs_cr_set_{f}(void *p, {ct} v) {{ static_cast<combinator_result *>(p)->{f} = v; }}')
        out.append(f'{ct} vs_cr_get_{f}(const void *p) {{ return static_cast<const combinator_result *>(p)->{f}; }}')
    for f_type, f in structs.get('config', []):
        ct = CTYPE[f_type]
        out.append(f'void vs_config_set_{f}(void *p, {ct} v) {{ static_cast<config *>(p)->{f} = v; }}')
        out.append(f'{ct} vs_config_get_{f}(void *p) {{ return static_cast<config *>(p)->{f}; }}')
    out.append('}')
    return '\n'.join(out), structs


FLAGS = {
    'plain': ['-O2'],
    'vg': ['-O0', '-g', '-gdwarf-4', '-fno-omit-frame-pointer'],       # for valgrind memcheck (uninitialised reads)
    'asan': ['-O1', '-g', '-fno-omit-frame-pointer', '-fsanitize=address,undefined', '-fno-sanitize-recover=undefined',
             '-shared-libasan'],
}


def sources():
    h = open(os.path.join(env.REPO, 'depccg', 'parsing.h'), encoding='utf-8').read()
    pyx = open(os.path.join(env.REPO, 'depccg', 'parsing.pyx'), encoding='utf-8').read()
    return h, pyx


def build(variant='plain'):
    """returns (path to .so, structs). Raises Inconclusive when the shim does not compile."""
    h, pyx = sources()
    src, structs = generate(pyx)
    key = hashlib.sha256((h + '\0' + pyx + '\0' + src + '\0' + variant + ' '.join(FLAGS[variant])).encode()).hexdigest()[:20]
    bdir = os.path.join(env.VERIF, 'build', key)
    so = os.path.join(bdir, f'shim_{variant}.so')
    if os.path.exists(so):
        return so, structs
    os.makedirs(bdir, exist_ok=True)
    cpp = os.path.join(bdir, f'shim_{variant}.cpp')
    with open(cpp, 'w') as f:
        f.write(src)
    tmp = so + f'.tmp{os.getpid()}'
    cmd = ['clang++', '-std=c++14', '-shared', '-fPIC', '-I', env.REPO, *FLAGS[variant], cpp, '-o', tmp]
    p = subprocess.run(cmd, capture_output=True, text=True)
    if p.returncode != 0:
        raise Inconclusive('shim does not compile against the current parsing.h/parsing.pyx: ' + p.stderr[-1500:])
    os.replace(tmp, so)
    return so, structs


def prune(keep=16):
    """keep the build cache small"""
    root = os.path.join(env.VERIF, 'build')
    if not os.path.isdir(root):
        return
    dirs = sorted((os.path.getmtime(os.path.join(root, d)), d) for d in os.listdir(root))
    import shutil
    for _, d in dirs[:-keep]:
        shutil.rmtree(os.path.join(root, d), ignore_errors=True)

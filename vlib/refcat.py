"""Independent reference model of category text and values (shares no code with depccg.cat).

A value is a nested tuple:
  atom    = ('A', base, feat)      feat = None | ('U', value) | ('T', ((k, v), (k, v), (k, v)))
  functor = ('F', left, slash, right)
"""
SPLIT = set('[]()/\\|<>')
PUNCT = (',', '.', ';', ':', 'LRB', 'RRB', 'conj', '*START*', '*END*')


class RefSyntaxError(Exception):
    pass


class Ambiguous(RefSyntaxError):
    """two unbracketed slashes at one level"""


def tokenize(text):
    out, cur = [], ''
    for ch in text:
        if ch in SPLIT or ch == ' ':
            if cur:
                out.append(cur)
                cur = ''
            if ch != ' ':
                out.append(ch)
        else:
            cur += ch
    if cur:
        out.append(cur)
    return out


def parse_feature(text):
    if '=' in text and ',' in text:
        kvs = tuple(tuple(kv.split('=')) for kv in text.split(','))
        if len(kvs) != 3 or any(len(kv) != 2 for kv in kvs):
            raise RefSyntaxError('bad triple')
        return ('T', kvs)
    return ('U', text)


def ref_parse(text):
    toks = tokenize(text)
    pos = 0

    def cat(closer):
        nonlocal pos
        left = term()
        if pos < len(toks) and toks[pos] in '/\\|' and len(toks[pos]) == 1:
            slash = toks[pos]
            pos += 1
            right = term()
            if pos < len(toks) and toks[pos] in ('/', '\\', '|'):
                raise Ambiguous(text)
            return ('F', left, slash, right)
        return left

    def term():
        nonlocal pos
        if pos >= len(toks):
            raise RefSyntaxError('unexpected end')
        t = toks[pos]
        if t in ('(', '<'):
            pos += 1
            inner = cat(t)
            want = ')' if t == '(' else '>'
            if pos >= len(toks) or toks[pos] != want:
                raise RefSyntaxError('unbalanced')
            pos += 1
            return inner
        if t in SPLIT:
            raise RefSyntaxError(f'unexpected {t}')
        pos += 1
        if t not in PUNCT and pos + 2 < len(toks) + 0 and toks[pos] == '[':
            if toks[pos + 2] != ']':
                raise RefSyntaxError('feature')
            feat = parse_feature(toks[pos + 1])
            pos += 3
            return ('A', t, feat)
        if t not in PUNCT and pos + 2 == len(toks) and toks[pos] == '[':
            # NAME [ FEAT ] at the very end: the real reader needs three more items
            if toks[pos + 1] in SPLIT:
                raise RefSyntaxError('feature')
            raise RefSyntaxError('feature at end without closer')
        return ('A', t, None)

    value = cat(None)
    if pos != len(toks):
        if toks[pos] in ('/', '\\', '|'):
            raise Ambiguous(text)
        raise RefSyntaxError('trailing')
    return value


def has_two_slashes_at_one_level(text):
    """Independent of ref_parse: scan bracket depth, count slashes per open group."""
    counts = [0]
    for t in tokenize(text):
        if t in ('(', '<'):
            counts.append(0)
        elif t in (')', '>'):
            if len(counts) > 1:
                counts.pop()
        elif t in ('/', '\\', '|'):
            counts[-1] += 1
            if counts[-1] >= 2:
                return True
        elif t == '[':
            pass
    return False


def feat_print(feat):
    if feat is None:
        return ''
    if feat[0] == 'U':
        return feat[1]
    return ','.join(f'{k}={v}' for k, v in feat[1])


def ref_print(v):
    if v[0] == 'A':
        f = feat_print(v[2])
        return v[1] + (f'[{f}]' if f else '')
    _, l, s, r = v

    def wrap(x):
        return f'({ref_print(x)})' if x[0] == 'F' else ref_print(x)
    return wrap(l) + s + wrap(r)


def natoms(v):
    return 1 if v[0] == 'A' else natoms(v[1]) + natoms(v[3])


def atoms(v):
    if v[0] == 'A':
        return [v]
    return atoms(v[1]) + atoms(v[3])


def blind(v):
    """structure with features erased (feature-blind comparison)"""
    if v[0] == 'A':
        return ('A', v[1], None)
    return ('F', blind(v[1]), v[2], blind(v[3]))


def erase(v, names):
    """clear_features(*names): unary feature values named in `names` are removed everywhere."""
    if v[0] == 'A':
        f = v[2]
        if f is not None and feat_print(f) in names:        # a feature is named by its text (unary value or the whole triple)
            return ('A', v[1], None)
        return v
    return ('F', erase(v[1], names), v[2], erase(v[3], names))


# ------------------------------------------------------------------ bridge to the real objects
def to_ref(cat):
    """Read a real depccg Category through its public attributes."""
    if cat.is_functor:
        return ('F', to_ref(cat.left), cat.slash, to_ref(cat.right))
    f = cat.feature
    if hasattr(f, 'kv1'):
        feat = ('T', (tuple(f.kv1), tuple(f.kv2), tuple(f.kv3)))
    else:
        feat = None if f.value is None else ('U', f.value)
    return ('A', cat.base, feat)


def from_ref(v):
    from depccg.cat import Atom, Functor, UnaryFeature, TernaryFeature
    if v[0] == 'A':
        f = v[2]
        if f is None:
            return Atom(v[1])
        if f[0] == 'U':
            return Atom(v[1], UnaryFeature(f[1]))
        return Atom(v[1], TernaryFeature(*[tuple(kv) for kv in f[1]]))
    return Functor(from_ref(v[1]), v[2], from_ref(v[3]))


def decorate(v, rng, depth=2, allow_outer=True):
    """A text of v with random redundant round/angle brackets and blanks (value unchanged)."""
    def br(s, p):
        if rng.random() < p:
            o, c = ('(', ')') if rng.random() < 0.7 else ('<', '>')
            return f'{o}{sp()}{s}{sp()}{c}'
        return s

    def sp():
        r = rng.random()
        return '' if r < 0.7 else (' ' if r < 0.9 else '  ')

    def rec(x, d):
        if x[0] == 'A':
            f = feat_print(x[2])
            s = x[1] + (f'{sp()}[{sp()}{f}{sp()}]' if f else '')
            for _ in range(d):
                s = br(s, 0.25)
            return s
        l, r = rec(x[1], d), rec(x[3], d)
        if x[1][0] == 'F':
            o, c = ('(', ')') if rng.random() < 0.8 else ('<', '>')
            l = f'{o}{sp()}{l}{sp()}{c}'
            for _ in range(d):
                l = br(l, 0.2)
        if x[3][0] == 'F':
            o, c = ('(', ')') if rng.random() < 0.8 else ('<', '>')
            r = f'{o}{sp()}{r}{sp()}{c}'
            for _ in range(d):
                r = br(r, 0.2)
        return f'{l}{sp()}{x[2]}{sp()}{r}'

    s = rec(v, depth)
    if allow_outer:
        for _ in range(depth):
            s = br(s, 0.3)
    return sp() + s + sp()

"""pyxlite: executes /repo/depccg/parsing.pyx without Cython.

A textual pre-pass plus an ast pass turn the file into a Python module that talks to the ctypes shim
through vlib.pyxrt.Runtime, so that the *real* depccg/parsing.py drives it and edits to the .pyx are
exercised. Anything the translator does not understand raises PyxliteError (-> inconclusive)."""
import ast
import os
import re
import sys
import types

from vlib import env, build, pyxrt
from vlib.runner import Inconclusive

TYPE_WORDS = {'list', 'dict', 'object', 'tuple', 'str', 'bytes', 'bint', 'unsigned', 'int', 'float', 'double'}
CAST_RE = re.compile(r'<\s*(object|void\s*\*|float\s*\*|unsigned|int|double|bint|float)\s*>\s*(?=[\w(])')


class PyxliteError(Inconclusive):
    pass


def _split_params(text):
    out, depth, cur = [], 0, ''
    for ch in text:
        if ch in '[(':
            depth += 1
        elif ch in '])':
            depth -= 1
        if ch == ',' and depth == 0:
            out.append(cur)
            cur = ''
        else:
            cur += ch
    if cur.strip():
        out.append(cur)
    return [p.strip() for p in out if p.strip()]


def _parse_cparam(p):
    m = re.match(r'^(.*?)(\**)\s*(\w+)$', p.replace(' *', '* ').replace('* ', '*'))
    if not m:
        raise PyxliteError(f'pyxlite: cannot parse C parameter {p!r}')
    ctype = (m.group(1).strip() + m.group(2)).strip()
    return ctype, m.group(3)


def translate(text):
    structs = build.parse_extern(text)
    struct_names = set(structs) | {'cache_type'}
    lines = text.split('\n')
    out = []
    typed = {}                 # function name -> {var: type}
    func_stack = []            # (indent, name)
    i = 0
    extern_funcs = []
    while i < len(lines):
        line = lines[i]
        stripped = line.strip()
        indent = len(line) - len(line.lstrip())
        while func_stack and stripped and indent <= func_stack[-1][0]:
            func_stack.pop()
        # cimports
        if re.match(r'\s*(from\s+\S+\s+cimport\s+|cimport\s+)', line):
            out.append('')
            i += 1
            continue
        # extern blocks
        if re.match(r'cdef extern from ', line):
            i += 1
            block = []
            while i < len(lines) and (not lines[i].strip() or lines[i].startswith(' ')):
                block.append(lines[i])
                i += 1
            btxt = '\n'.join(block)
            for m in re.finditer(r'cdef\s+\w+\s+(\w+)\s*\(', btxt):
                extern_funcs.append(m.group(1))
            out.extend([''] * (len(block) + 1))
            continue
        # cdef functions (possibly multi-line signature)
        m = re.match(r'^(\s*)cdef\s+(?:(\w+)\s+)?(\w+)\s*\((.*)$', line)
        if m and not stripped.startswith('cdef extern'):
            ind, ret, name, rest = m.groups()
            sig = rest
            j = i
            while not re.search(r'\)\s*(except\s+[-+\w*?]+|noexcept|nogil)?\s*:\s*$', sig):
                j += 1
                if j >= len(lines):
                    raise PyxliteError(f'pyxlite: unterminated signature of {name}')
                sig += ' ' + lines[j].strip()
            mm = re.match(r'^(.*)\)\s*(except\s+[-+\w*?]+|noexcept|nogil)?\s*:\s*$', sig)
            params = [_parse_cparam(p) for p in _split_params(mm.group(1))]
            exc = (mm.group(2) or '').strip() or None
            out.append(f'{ind}@__rt.cfunc({ret!r}, {params!r}, {exc!r})')
            out.append(f'{ind}def {name}({", ".join(n for _, n in params)}):')
            out.extend([''] * (j - i - 1))
            typed[name] = {n: t for t, n in params}
            func_stack.append((len(ind), name))
            i = j + 1
            continue
        # def with typed parameters (multi-line)
        m = re.match(r'^(\s*)def\s+(\w+)\s*\((.*)$', line)
        if m:
            ind, name, rest = m.groups()
            sig = rest
            j = i
            while not re.search(r'\)\s*(->.*)?:\s*$', sig):
                j += 1
                sig += '\n' + lines[j]
            mm = re.match(r'^(.*)\)\s*(->[^:]*)?:\s*$', sig, re.S)
            params, checks = [], []
            for p in _split_params(mm.group(1).replace('\n', ' ')):
                pm = re.match(r'^(%s)\s+(\w+)(\s*=.*)?$' % '|'.join(sorted(TYPE_WORDS)), p)
                if pm:
                    params.append(pm.group(2) + (pm.group(3) or ''))
                    if pm.group(1) != 'object':
                        checks.append((pm.group(1), pm.group(2)))
                else:
                    params.append(p)
            out.append(f'{ind}def {name}({", ".join(params)}){mm.group(2) or ""}:')
            body_ind = ind + '    '
            for t, n in checks:
                out[-1] += ''
            if checks:
                out.append(body_ind + '; '.join(f'{n} = __rt.check_arg({t!r}, {n}, {n!r})' for t, n in checks))
                out.extend([''] * max(0, j - i - 1))
            else:
                out.extend([''] * (j - i))
            if not func_stack or len(ind) == 0:
                typed.setdefault(name, {})
            func_stack.append((len(ind), name))
            i = j + 1
            continue
        # cdef variable declarations inside functions
        m = re.match(r'^(\s+)cdef\s+(.*)$', line)
        if m:
            ind, decl = m.groups()
            fname = func_stack[-1][1] if func_stack else None
            init = None
            if '=' in decl and not re.search(r"\[[^\]]*=[^\]]*\]\s*\w+\s*$", decl):
                decl, init = decl.split('=', 1)
                decl, init = decl.strip(), init.strip()
            if re.match(r'^\w+(\s*,\s*\w+)*$', decl) and decl.split(',')[0].strip() not in TYPE_WORDS | struct_names:
                names, ctype = [n.strip() for n in decl.split(',')], 'object'
            else:
                tm = re.match(r'^((?:np\.ndarray|\w+)(?:\[[^\]]*\])?)\s*(\**)\s*(.+)$', decl)
                if not tm:
                    raise PyxliteError(f'pyxlite: cannot parse declaration {line.strip()!r}')
                ctype = tm.group(1) + tm.group(2)
                names = [n.strip().lstrip('*') for n in tm.group(3).split(',')]
                if tm.group(3).lstrip().startswith('*'):
                    ctype += '*'
            stmts = []
            for n in names:
                if not re.match(r'^\w+$', n):
                    raise PyxliteError(f'pyxlite: cannot parse declaration {line.strip()!r}')
                if fname is not None and ctype != 'object':
                    typed.setdefault(_outer(func_stack), {})[n] = ctype
                if init is not None:
                    stmts.append(f'{n} = __rt.declare({ctype!r}, {n!r}, {_expr(init)})')
                else:
                    stmts.append(f'{n} = __rt.declare({ctype!r}, {n!r})')
            out.append(ind + '; '.join(stmts))
            i += 1
            continue
        out.append(_expr(line))
        i += 1
    src = '\n'.join(out)
    try:
        tree = ast.parse(src)
    except SyntaxError as e:
        raise PyxliteError(f'pyxlite: translated source does not parse: {e} :: {src.splitlines()[e.lineno - 1] if e.lineno else ""}')
    tree = _Typer(typed).visit(tree)
    ast.fix_missing_locations(tree)
    return tree, src, structs, extern_funcs


def _outer(func_stack):
    # typed locals belong to the innermost function that declares them
    return func_stack[-1][1]


def _expr(line):
    if line.lstrip().startswith('#'):
        return line
    line = CAST_RE.sub(lambda m: f"__rt.cast({m.group(1).replace(' ', '')!r}) @ ", line)
    line = re.sub(r'(?<![\w)\]&])&\s*([A-Za-z_]\w*)', r'__rt.addr(\1)', line)
    line = re.sub(r'\bNULL\b', '__rt.NULL', line)
    line = re.sub(r'\bUINT_MAX\b', '__rt.UINT_MAX', line)
    return line


def _is_literal(node):
    if isinstance(node, ast.Constant) and isinstance(node.value, (int, float)) :
        return True
    return isinstance(node, ast.UnaryOp) and isinstance(node.operand, ast.Constant) and isinstance(node.operand.value, (int, float))


class _Typer(ast.NodeTransformer):
    """wraps assignments to typed locals in __rt.coerce and literal struct-field stores in __rt.lit"""

    def __init__(self, typed):
        self.typed = typed
        self.scope = [{}]

    def visit_FunctionDef(self, node):
        self.scope.append(self.typed.get(node.name, {}) if len(self.scope) == 1 else {})
        self.generic_visit(node)
        self.scope.pop()
        return node

    def _coerce(self, name, value):
        ctype = self.scope[-1][name]
        return ast.Call(func=ast.Attribute(value=ast.Name(id='__rt', ctx=ast.Load()), attr='coerce', ctx=ast.Load()),
                        args=[ast.Constant(ctype), value, ast.Constant(_is_literal(value))], keywords=[])

    def visit_Assign(self, node):
        self.generic_visit(node)
        if len(node.targets) == 1:
            t = node.targets[0]
            if isinstance(t, ast.Name) and t.id in self.scope[-1]:
                if not (isinstance(node.value, ast.Call) and isinstance(node.value.func, ast.Attribute)
                        and getattr(node.value.func.value, 'id', None) == '__rt' and node.value.func.attr == 'declare'):
                    node.value = self._coerce(t.id, node.value)
            elif isinstance(t, ast.Attribute) and _is_literal(node.value):
                node.value = ast.Call(func=ast.Attribute(value=ast.Name(id='__rt', ctx=ast.Load()), attr='lit', ctx=ast.Load()),
                                      args=[node.value], keywords=[])
        return node

    def visit_For(self, node):
        self.generic_visit(node)
        names = [n.id for n in ast.walk(node.target) if isinstance(n, ast.Name) and n.id in self.scope[-1]]
        pre = []
        for n in names:
            pre.append(ast.Assign(targets=[ast.Name(id=n, ctx=ast.Store())],
                                  value=self._coerce(n, ast.Name(id=n, ctx=ast.Load()))))
        node.body = pre + node.body
        return node


_cache = {}


def load(variant='plain', trace=False):
    """Translate the current parsing.pyx, bind it to the shim build and register it as depccg._parsing."""
    env.install()
    pyx_path = os.path.join(env.REPO, 'depccg', 'parsing.pyx')
    text = open(pyx_path, encoding='utf-8').read()
    so, structs = build.build(variant)
    try:
        tree, src, structs2, extern_funcs = translate(text)
    except PyxliteError:
        raise
    except Exception as e:
        raise PyxliteError(f'pyxlite: translation failed: {e!r}')
    rt = pyxrt.Runtime(so, structs)
    rt.trace = trace
    if not rt.lib.vs_hook_compiled_in() and trace:
        raise Inconclusive('DEPCCG_VERIF is not set: the pop hook is disabled')
    mod = types.ModuleType('depccg._parsing')
    mod.__file__ = pyx_path
    mod.__dict__['__rt'] = rt
    mod.__dict__['np'] = __import__('numpy')
    if 'parse_sentence' in extern_funcs:
        mod.__dict__['parse_sentence'] = rt.parse_sentence
    sys.modules['depccg._parsing'] = mod
    import depccg
    depccg._parsing = mod
    try:
        exec(compile(tree, pyx_path, 'exec'), mod.__dict__)
    except Exception as e:
        sys.modules.pop('depccg._parsing', None)
        raise PyxliteError(f'pyxlite: translated module failed to import: {e!r}')
    for need in ('run', 'retrieve_tree', 'scaffold', 'init_config'):
        if need not in mod.__dict__:
            raise PyxliteError(f'pyxlite: translated module lacks {need}')
    mod._verif_src = src
    return mod, rt

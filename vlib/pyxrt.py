"""Runtime for pyxlite-translated parsing.pyx: emulates the typed-variable semantics of Cython that the
file relies on, on top of the ctypes shim around parsing.h."""
import ctypes
import sys

import numpy as np

UINT_MAX = 2**32 - 1


class _Null:
    addr = 0

    def __eq__(self, other):
        return getattr(other, 'addr', None) == 0 or other is None

    def __ne__(self, other):
        return not self.__eq__(other)

    def __hash__(self):
        return 0

    def __repr__(self):
        return 'NULL'


NULL = _Null()


class Lit:
    """a compile-time constant on the right-hand side of a typed assignment (C conversion rules)"""

    def __init__(self, v):
        self.v = v


class Event(ctypes.Structure):
    _fields_ = [('step', ctypes.c_uint), ('accepted', ctypes.c_int), ('fin', ctypes.c_int), ('cat', ctypes.c_uint),
                ('in_score', ctypes.c_float), ('out_score', ctypes.c_float), ('start', ctypes.c_uint),
                ('length', ctypes.c_uint), ('head', ctypes.c_uint), ('rule', ctypes.c_uint),
                ('has_left', ctypes.c_int), ('has_right', ctypes.c_int)]


EVENT_DTYPE = np.dtype([('step', 'u4'), ('accepted', 'i4'), ('fin', 'i4'), ('cat', 'u4'), ('in_score', 'f4'),
                        ('out_score', 'f4'), ('start', 'u4'), ('length', 'u4'), ('head', 'u4'), ('rule', 'u4'),
                        ('has_left', 'i4'), ('has_right', 'i4')])


def to_unsigned(value, what='value'):
    """Python object -> C unsigned, as Cython converts it"""
    if isinstance(value, Lit):
        v = value.v
        if isinstance(v, bool):
            return int(v)
        if isinstance(v, int):
            return v % (UINT_MAX + 1)
        if isinstance(v, float):
            return int(v) % (UINT_MAX + 1)
        raise TypeError(f'an integer is required for {what}')
    if isinstance(value, (bool, np.bool_)):
        return int(value)
    if isinstance(value, (int, np.integer)):
        v = int(value)
    elif hasattr(value, '__index__'):
        v = value.__index__()
    elif isinstance(value, float):
        raise TypeError(f"'float' object cannot be interpreted as an integer")
    else:
        raise TypeError(f"an integer is required (got type {type(value).__name__})")
    if v < 0:
        raise OverflowError("can't convert negative value to unsigned int")
    if v > UINT_MAX:
        raise OverflowError('value too large to convert to unsigned int')
    return v


def to_int(value):
    if isinstance(value, Lit):
        value = value.v
    if isinstance(value, float):
        raise TypeError("'float' object cannot be interpreted as an integer")
    v = int(value.__index__()) if not isinstance(value, int) else int(value)
    if not -2**31 <= v < 2**31:
        raise OverflowError('value too large to convert to int')
    return v


def to_float(value):
    if isinstance(value, Lit):
        value = value.v
    return float(np.float32(float(value)))


def to_bint(value):
    if isinstance(value, Lit):
        value = value.v
    return bool(value)


SCALAR = {'unsigned': to_unsigned, 'int': to_int, 'float': to_float, 'double': lambda v: float(v.v if isinstance(v, Lit) else v),
          'bint': to_bint}


class Runtime:
    def __init__(self, so_path, structs):
        self.lib = ctypes.CDLL(so_path)
        self.structs = structs
        self.NULL = NULL
        self.UINT_MAX = UINT_MAX
        self.pending = None           # exception stashed by an `except -1` callback
        self.swallowed = []           # exceptions swallowed by noexcept functions (Cython: PyErr_WriteUnraisable)
        self.ub_events = []           # undefined behaviour the real compiled glue would have executed
        self.parse_calls = 0
        self.objects = {}             # void* registry
        self.trace = False
        self.last_trace = None
        self.last_counts = (0, 0)
        self._proto()

    # ------------------------------------------------------------------ prototypes
    def _proto(self):
        L, c = self.lib, ctypes
        L.vs_cache_new.restype = c.c_void_p
        L.vs_cache_free.argtypes = [c.c_void_p]
        L.vs_cache_size.argtypes = [c.c_void_p]
        L.vs_cache_size.restype = c.c_uint
        L.vs_cache_vec_size.argtypes = [c.c_void_p, c.c_uint, c.c_uint]
        L.vs_cache_vec_size.restype = c.c_uint
        L.vs_cache_has.argtypes = [c.c_void_p, c.c_uint, c.c_uint]
        L.vs_cache_at.argtypes = [c.c_void_p, c.c_uint, c.c_uint, c.c_uint]
        L.vs_cache_at.restype = c.c_void_p
        L.vs_cr_string.argtypes = [c.c_void_p, c.c_int, c.c_char_p, c.c_uint]
        L.vs_cr_string.restype = c.c_uint
        L.vs_cr_new.restype = c.c_void_p
        L.vs_cr_free.argtypes = [c.c_void_p]
        L.vs_cr_set_string.argtypes = [c.c_void_p, c.c_int, c.c_char_p, c.c_uint]
        L.vs_vec_push_back.argtypes = [c.c_void_p, c.c_void_p]
        L.vs_vec_size.argtypes = [c.c_void_p]
        L.vs_vec_size.restype = c.c_uint
        L.vs_set_new.restype = c.c_void_p
        L.vs_set_free.argtypes = [c.c_void_p]
        L.vs_set_insert.argtypes = [c.c_void_p, c.c_uint]
        L.vs_config_new.restype = c.c_void_p
        L.vs_config_free.argtypes = [c.c_void_p]
        L.vs_trace_size.restype = c.c_ulong
        L.vs_trace_pops.restype = c.c_ulong
        L.vs_trace_accepts.restype = c.c_ulong
        L.vs_trace_copy.argtypes = [c.c_void_p]
        L.vs_item_score.argtypes = [c.c_void_p]
        L.vs_item_score.restype = c.c_float
        cmap = {'bint': c.c_int, 'unsigned': c.c_uint, 'float': c.c_float, 'int': c.c_int, 'double': c.c_double}
        for t, f in self.structs.get('cell_item', []):
            fn = getattr(L, f'vs_item_get_{f}')
            fn.argtypes = [c.c_void_p]
            fn.restype = c.c_void_p if t.endswith('*') else cmap[t]
        for t, f in self.structs.get('combinator_result', []):
            if t == 'string':
                continue
            getattr(L, f'vs_cr_set_{f}').argtypes = [c.c_void_p, cmap[t]]
            g = getattr(L, f'vs_cr_get_{f}')
            g.argtypes = [c.c_void_p]
            g.restype = cmap[t]
        for t, f in self.structs.get('config', []):
            getattr(L, f'vs_config_set_{f}').argtypes = [c.c_void_p, cmap[t]]
            g = getattr(L, f'vs_config_get_{f}')
            g.argtypes = [c.c_void_p]
            g.restype = cmap[t]
        self.SCAFFOLD = c.CFUNCTYPE(c.c_int, c.c_void_p, c.c_uint, c.c_uint, c.c_void_p)
        self.FINALIZER = c.CFUNCTYPE(c.c_uint, c.c_void_p, c.POINTER(c.c_uint), c.c_void_p, c.c_void_p)
        L.vs_parse.argtypes = [c.c_void_p, c.c_void_p, c.c_uint, c.c_void_p, c.c_void_p, c.c_void_p, self.FINALIZER,
                               self.SCAFFOLD, c.c_void_p, c.c_void_p, c.c_void_p, c.POINTER(c.c_uint), c.c_char_p, c.c_uint]
        L.vs_parse.restype = c.c_int

    # ------------------------------------------------------------------ declarations / conversions
    def declare(self, ctype, name, *init):
        ctype = ctype.replace(' ', '')
        if init:
            return self.coerce(ctype, init[0])
        if ctype in SCALAR:
            return 0 if ctype != 'float' else 0.0
        if ctype in ('list', 'dict', 'object', 'tuple', 'str', 'bytes') or ctype.startswith('np.ndarray'):
            return None
        if ctype.endswith('*'):
            return NULL
        if ctype == 'cache_type':
            return CacheVal(self)
        if ctype.startswith('unordered_set['):
            return SetVal(self)
        if ctype.startswith('pair['):
            return PairVal(self)
        if ctype == 'config':
            return ConfigVal(self)
        if ctype == 'combinator_result':
            return CombinatorResultVal(self)
        raise NotImplementedError(f'pyxlite: cannot declare a variable of type {ctype}')

    def coerce(self, ctype, value, literal=False):
        ctype = ctype.replace(' ', '')
        if ctype in SCALAR:
            return SCALAR[ctype](Lit(value) if literal else value)
        if ctype == 'object':
            return value
        if ctype in ('list', 'dict', 'tuple', 'str', 'bytes'):
            want = {'list': list, 'dict': dict, 'tuple': tuple, 'str': str, 'bytes': bytes}[ctype]
            if value is not None and type(value) is not want:      # Cython checks the exact builtin type
                raise TypeError(f'Expected {ctype}, got {type(value).__name__}')
            return value
        if ctype.startswith('np.ndarray'):
            return self._buffer(ctype, value)
        return value

    def _buffer(self, ctype, value):
        if value is None:
            return None
        if not isinstance(value, np.ndarray):
            raise TypeError(f'Cannot convert {type(value).__name__} to numpy.ndarray')
        want_nd = 2 if 'ndim=2' in ctype else (1 if 'ndim=1' in ctype else None)
        if want_nd is not None and value.ndim != want_nd:
            raise ValueError(f'Buffer has wrong number of dimensions (expected {want_nd}, got {value.ndim})')
        if 'float' in ctype.split('[')[1].split(',')[0] and value.dtype != np.float32:
            raise ValueError(f"Buffer dtype mismatch, expected 'float' but got '{value.dtype}'")
        if "mode='c'" in ctype and not value.flags['C_CONTIGUOUS']:
            raise ValueError('ndarray is not C-contiguous')
        return value

    def check_arg(self, ctype, value, name):
        try:
            return self.coerce(ctype, value)
        except TypeError:
            raise TypeError(f"Argument '{name}' has incorrect type (expected {ctype}, got {type(value).__name__})")

    def lit(self, v):
        return Lit(v)

    def cast(self, ctype):
        return _Cast(self, ctype.replace(' ', ''))

    def addr(self, obj):
        if hasattr(obj, 'pointer'):
            return obj.pointer()
        raise NotImplementedError(f'pyxlite: cannot take the address of {type(obj).__name__}')

    # ------------------------------------------------------------------ cdef functions
    def cfunc(self, ret, params, exc):
        rt = self

        def deco(fn):
            def wrapper(*args):
                if len(args) != len(params):
                    raise TypeError(f'{fn.__name__}() takes exactly {len(params)} positional arguments ({len(args)} given)')
                conv = []
                for (ptype, pname), a in zip(params, args):
                    ptype = ptype.replace(' ', '')
                    if ptype in SCALAR or ptype in ('list', 'dict', 'tuple', 'str'):
                        a = rt.check_arg(ptype, a, pname)
                    conv.append(a)
                if exc == 'noexcept':
                    try:
                        out = fn(*conv)
                    except Exception as e:      # Cython prints the traceback and returns the default value
                        rt.swallowed.append((fn.__name__, repr(e)))
                        return 0
                else:
                    out = fn(*conv)
                if ret in SCALAR:
                    return SCALAR[ret](out)
                return out
            wrapper.__name__ = fn.__name__
            wrapper.__wrapped__ = fn
            wrapper._c_ret, wrapper._c_exc = ret, exc
            return wrapper
        return deco

    # ------------------------------------------------------------------ parse_sentence
    def parse_sentence(self, tag_scores, dep_scores, length, roots, binary_cb, unary_cb, finalizer, scaffold,
                       finalizer_args, cache, cfg):
        self.parse_calls += 1
        c = ctypes
        length = to_unsigned(length, 'length')
        rt = self

        def scaffold_thunk(cb, x, y, results):
            try:
                r = scaffold(VoidPtr(rt, cb), x, y, VectorPtr(rt, results))
                return int(r)
            except BaseException as e:            # `except -1`: the exception stays pending, C++ sees -1
                if rt.pending is None:
                    rt.pending = e
                return -1

        def finalizer_thunk(item, token_id, cache_p, args):
            try:
                return int(finalizer(ItemPtr(rt, item), token_id, CachePtr(rt, cache_p), VoidPtr(rt, args)))
            except BaseException as e:
                rt.swallowed.append(('finalizer-thunk', repr(e)))
                return 0
        s_cb, f_cb = self.SCAFFOLD(scaffold_thunk), self.FINALIZER(finalizer_thunk)
        status = c.c_uint(0)
        err = c.create_string_buffer(512)
        self.lib.vs_trace_enable(1 if self.trace else 0)
        self.lib.vs_trace_reset()
        rc = self.lib.vs_parse(_fptr(tag_scores), _fptr(dep_scores), length, roots.handle, _vp(binary_cb), _vp(unary_cb),
                               f_cb, s_cb, _vp(finalizer_args), cache.handle, cfg.handle, c.byref(status), err, 512)
        self.last_counts = (self.lib.vs_trace_pops(), self.lib.vs_trace_accepts())
        if self.trace:
            n = self.lib.vs_trace_size()
            arr = np.zeros(n, dtype=EVENT_DTYPE)
            if n:
                self.lib.vs_trace_copy(arr.ctypes.data)
            self.last_trace = arr
        pending, self.pending = self.pending, None
        if pending is not None:
            raise pending
        if rc != 0:
            msg = err.value.decode('utf-8', 'replace')
            raise {2: MemoryError, 3: IndexError}.get(rc, RuntimeError)(msg)
        return status.value


def _vp(p):
    if isinstance(p, VoidPtr):
        return p.addr
    if p is NULL or p is None:
        return None
    raise TypeError(f'void* expected, got {type(p).__name__}')


def _fptr(p):
    if isinstance(p, FloatPtr):
        return p.addr
    if p is NULL or p is None:
        return None
    raise TypeError(f'float* expected, got {type(p).__name__}')


class _Cast:
    def __init__(self, rt, ctype):
        self.rt, self.ctype = rt, ctype

    def __matmul__(self, value):
        t = self.ctype
        if t == 'object':
            if isinstance(value, VoidPtr):
                return value.obj()
            return value
        if t == 'void*':
            if isinstance(value, VoidPtr):
                return value
            key = id(value)
            self.rt.objects[key] = value
            return VoidPtr(self.rt, key)
        if t == 'float*':
            arr = value.obj if isinstance(value, memoryview) else value
            if arr is None:
                raise AttributeError("'NoneType' object has no attribute 'data'")
            return FloatPtr(arr)
        if t in SCALAR:
            return SCALAR[t](Lit(value) if isinstance(value, (int, float)) else value)
        raise NotImplementedError(f'pyxlite: cast to {t}')


class VoidPtr:
    def __init__(self, rt, addr):
        self.rt, self.addr = rt, addr or 0

    def obj(self):
        return self.rt.objects[self.addr]

    def __eq__(self, other):
        return getattr(other, 'addr', None) == self.addr


class FloatPtr:
    def __init__(self, arr):
        self.arr = arr
        self.addr = arr.ctypes.data


class ItemPtr:
    def __init__(self, rt, addr):
        object.__setattr__(self, 'rt', rt)
        object.__setattr__(self, 'addr', addr or 0)

    def __getattr__(self, name):
        rt = self.rt
        fields = dict((f, t) for t, f in rt.structs.get('cell_item', []))
        if name == 'score':
            return lambda: float(rt.lib.vs_item_score(self.addr))
        if name not in fields:
            raise AttributeError(name)
        if self.addr == 0:
            rt.ub_events.append(f'null cell_item dereferenced (.{name})')
            raise RuntimeError('null pointer dereference')
        v = getattr(rt.lib, f'vs_item_get_{name}')(self.addr)
        t = fields[name]
        if t.endswith('*'):
            return ItemPtr(rt, v) if v else NULL
        if t == 'bint':
            return bool(v)
        return v

    def __eq__(self, other):
        return getattr(other, 'addr', None) == self.addr

    def __ne__(self, other):
        return not self.__eq__(other)

    def __hash__(self):
        return hash(self.addr)


class CombinatorResultVal:
    """a combinator_result held by value (cdef combinator_result c_result)"""

    def __init__(self, rt, src=None):
        object.__setattr__(self, 'rt', rt)
        object.__setattr__(self, 'fields', dict((f, t) for t, f in rt.structs.get('combinator_result', [])))
        object.__setattr__(self, 'vals', {})
        if src:
            for f, t in self.fields.items():
                if t == 'string':
                    buf = ctypes.create_string_buffer(4096)
                    n = rt.lib.vs_cr_string(src, 1 if f == 'op_symbol' else 0, buf, 4096)
                    self.vals[f] = buf.raw[:min(n, 4096)]
                else:
                    v = getattr(rt.lib, f'vs_cr_get_{f}')(src)
                    self.vals[f] = bool(v) if t == 'bint' else v

    def __setattr__(self, name, value):
        if name not in self.fields:
            raise AttributeError(f"Object of type 'combinator_result' has no attribute '{name}'")
        t = self.fields[name]
        if t == 'string':
            if isinstance(value, Lit):
                value = value.v
            if not isinstance(value, (bytes, bytearray)):
                raise TypeError(f'expected bytes, {type(value).__name__} found')
            self.vals[name] = bytes(value)
        else:
            self.vals[name] = SCALAR[t](value)

    def __getattr__(self, name):
        try:
            return self.vals[name]
        except KeyError:
            if name in self.fields:
                return b'' if self.fields[name] == 'string' else 0
            raise AttributeError(name)

    def to_native(self):
        rt = self.rt
        p = rt.lib.vs_cr_new()
        for f, t in self.fields.items():
            v = self.__getattr__(f)
            if t == 'string':
                rt.lib.vs_cr_set_string(p, 1 if f == 'op_symbol' else 0, v, len(v))
            else:
                getattr(rt.lib, f'vs_cr_set_{f}')(p, int(v) if t != 'float' else v)
        return p


class VectorPtr:
    def __init__(self, rt, addr):
        self.rt, self.addr = rt, addr

    def push_back(self, value):
        if not isinstance(value, CombinatorResultVal):
            raise TypeError('combinator_result expected')
        p = value.to_native()
        self.rt.lib.vs_vec_push_back(self.addr, p)
        self.rt.lib.vs_cr_free(p)

    def size(self):
        return self.rt.lib.vs_vec_size(self.addr)


class PairVal:
    def __init__(self, rt):
        object.__setattr__(self, 'first', 0)
        object.__setattr__(self, 'second', 0)

    def __setattr__(self, name, value):
        if name not in ('first', 'second'):
            raise AttributeError(name)
        object.__setattr__(self, name, to_unsigned(value, f'pair.{name}'))


class SetVal:
    def __init__(self, rt):
        self.rt = rt
        self.handle = rt.lib.vs_set_new()
        self.py = set()

    def insert(self, v):
        v = to_unsigned(v)
        self.py.add(v)
        self.rt.lib.vs_set_insert(self.handle, v)

    def __del__(self):
        try:
            self.rt.lib.vs_set_free(self.handle)
        except Exception:
            pass


class ConfigVal:
    def __init__(self, rt):
        object.__setattr__(self, 'rt', rt)
        object.__setattr__(self, 'handle', rt.lib.vs_config_new())
        object.__setattr__(self, 'fields', dict((f, t) for t, f in rt.structs.get('config', [])))

    def pointer(self):
        return self

    def __setattr__(self, name, value):
        if name not in self.fields:
            raise AttributeError(f"Object of type 'config' has no attribute '{name}'")
        t = self.fields[name]
        v = SCALAR[t](value)
        getattr(self.rt.lib, f'vs_config_set_{name}')(self.handle, int(v) if t != 'float' else v)

    def __getattr__(self, name):
        if name not in self.fields:
            raise AttributeError(name)
        v = getattr(self.rt.lib, f'vs_config_get_{name}')(self.handle)
        return bool(v) if self.fields[name] == 'bint' else v

    def __getitem__(self, i):
        if i != 0:
            raise IndexError('pointer arithmetic on config* is not modelled')
        return self

    def __del__(self):
        try:
            self.rt.lib.vs_config_free(self.handle)
        except Exception:
            pass


class CacheVal:
    def __init__(self, rt):
        self.rt = rt
        self.handle = rt.lib.vs_cache_new()

    def pointer(self):
        return CachePtr(self.rt, self.handle, owner=self)

    def size(self):
        return self.rt.lib.vs_cache_size(self.handle)

    def __del__(self):
        try:
            self.rt.lib.vs_cache_free(self.handle)
        except Exception:
            pass


class CachePtr:
    def __init__(self, rt, handle, owner=None):
        self.rt, self.handle, self.owner = rt, handle, owner

    def __getitem__(self, i):
        if i != 0:
            self.rt.ub_events.append(f'cache pointer indexed with {i}')
            raise IndexError('out-of-bounds pointer index')
        return CacheRef(self.rt, self.handle)


class CacheRef:
    def __init__(self, rt, handle):
        self.rt, self.handle = rt, handle

    def __getitem__(self, key):
        if not isinstance(key, PairVal):
            raise TypeError('pair[unsigned, unsigned] expected')
        return VecRef(self.rt, self.handle, key.first, key.second)


class VecRef:
    def __init__(self, rt, handle, first, second):
        self.rt, self.handle, self.first, self.second = rt, handle, first, second
        if not rt.lib.vs_cache_has(handle, first, second):
            rt.ub_events.append(f'cache key ({first}, {second}) was not present: operator[] default-inserts an empty vector')
        self.n = rt.lib.vs_cache_vec_size(handle, first, second)

    def __getitem__(self, index):
        index = to_unsigned(index, 'vector index') if not isinstance(index, int) or index >= 0 else index % (2**64)
        p = self.rt.lib.vs_cache_at(self.handle, self.first, self.second, index % (2**32)) if index < 2**32 else None
        if not p:
            self.rt.ub_events.append(f'vector index {index} out of range (size {self.n}) for cache key ({self.first}, {self.second})')
            raise IndexError('undefined behaviour: vector index out of range')
        return CombinatorResultVal(self.rt, p)

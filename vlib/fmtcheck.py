"""What each output format must say about a given derivation (the format's own spelling), and the comparison
of a decoded record with it. Independent of depccg.printer."""
from vlib import refcat, codecs

BR = {'(': '-LRB-', ')': '-RRB-', '{': '-LCB-', '}': '-RCB-', '[': '-LSB-', ']': '-RSB-'}
UNBR = {v: k for k, v in BR.items()}


def escaped_word(w):
    """bracket tokens in their escaped spelling; angle characters inside words escaped"""
    if w in BR:
        return BR[w]
    return w.replace('>', '-RAB-').replace('<', '-LAB-')


def raw_word(w):
    return UNBR.get(w, w)


def cat_text(cat):
    return refcat.ref_print(refcat.to_ref(cat))


def jigg_cat(cat):
    def rec(v):
        if v[0] == 'A':
            f = v[2]
            if f is None:
                return v[1]
            if f[0] == 'U':
                return f'{v[1]}[{f[1]}=true]'
            return refcat.ref_print(v)
        return f'({top(v)})'

    def top(v):
        if v[0] == 'A':
            return rec(v)
        return f'{rec(v[1])}{v[2]}{rec(v[3])}'
    return top(refcat.to_ref(cat))


PL_PUNCT = {'.': 'period', ',': 'comma', ':': 'colon', ';': 'semicolon'}


def prolog_cat_en(cat):
    def rec(v):
        if v[0] == 'A':
            base = v[1].lower()
            if base in PL_PUNCT:
                return PL_PUNCT[base]
            f = refcat.feat_print(v[2])
            return base if f == '' else f'{base}:{f}'
        return f'({rec(v[1])}{v[2]}{rec(v[3])})'
    return rec(refcat.to_ref(cat))


def prolog_cat_ja(cat):
    def rec(v):
        if v[0] == 'A':
            base = v[1].lower()
            f = v[2]
            if f is not None and f[0] == 'T' and 'case' in dict(f[1]):
                return f'{base}:{dict(f[1])["case"].lower()}'
            return base
        return f'({rec(v[1])}{v[2]}{rec(v[3])})'
    return rec(refcat.to_ref(cat))


PL_EN_RULE = {'fa': 'fa', 'ba': 'ba', 'fx': 'fc', 'fc': 'fc', 'bx': 'bxc', 'gfc': 'gfc', 'gbx': 'gbx', 'rp': 'rp', 'lp': 'lp',
              'conj': 'conj'}
PL_JA_RULE = {'SSEQ': 'sseq', '>': 'fa', '<': 'ba', '>B': 'fc', '<B1': 'bc1', '<B2': 'bc2', '<B3': 'bc3', '<B4': 'bc4',
              '>Bx1': 'fx1', '>Bx2': 'fx2', '>Bx3': 'fx3', 'ADNext': 'adnext', 'ADNint': 'adnint', 'ADV0': 'adv0',
              'ADV1': 'adv1', 'ADV2': 'adv2'}


def expected(tree, fmt, lang='en'):
    """expected decoded node for `tree` in format `fmt` (fields the format does not carry are None / absent)"""
    counter = [0]

    def rec(node):
        if node.is_leaf:
            i = counter[0]
            counter[0] += 1
            tok = node.token
            w = tok['word']
            if fmt == 'auto':
                p = tok.get('pos', 'POS')
                return codecs.L(cat_text(node.cat), escaped_word(w), pos=p, pos2=p)
            if fmt == 'auto_extended':
                return codecs.L(cat_text(node.cat), escaped_word(w), lemma=tok.get('lemma', 'XX'), pos=tok.get('pos', 'XX'),
                                entity=tok.get('entity', 'XX'), chunk=tok.get('chunk', 'XX'))
            if fmt == 'conll':
                p = tok.get('pos', '_')
                return codecs.L(cat_text(node.cat), escaped_word(w), pos=p, pos2=p)
            if fmt == 'xml':
                a = {k: v for k, v in tok.items() if k != 'word'}
                return codecs.L(cat_text(node.cat), w, start=i, span=1, **a)
            if fmt == 'jigg_xml':
                a = {}
                for k, v in tok.items():
                    if k == 'word':
                        continue
                    a['base' if k == 'lemma' else k] = v
                a['surf'] = w
                return codecs.L(jigg_cat(node.cat), w, begin=i, end=i + 1, **a)
            if fmt == 'json':
                return codecs.L(cat_text(node.cat), w, **{k: v for k, v in tok.items() if k != 'word'})
            if fmt == 'ptb':
                return codecs.L(cat_text(node.cat), w)
            if fmt == 'deriv':
                return codecs.L(cat_text(node.cat), w)
            if fmt == 'html':
                return codecs.L(cat_text(node.cat), w, lex='lex')
            if fmt == 'prolog' and lang == 'en':
                return codecs.L(prolog_cat_en(node.cat), w, lemma=tok['lemma'], pos=tok['pos'], chunk=tok['chunk'], entity=tok['entity'])
            if fmt == 'prolog':
                tags = [tok.get(k, '*') for k in ('pos', 'pos1', 'pos2', 'pos3')]
                pos = '*' if all(t == '*' for t in tags) else '/'.join(tags)
                return codecs.L(prolog_cat_ja(node.cat), tok.get('surf', w), base=tok.get('base', '*'), pos=pos,
                                inflectionForm=tok.get('inflectionForm', '*'), inflectionType=tok.get('inflectionType', '*'))
            if fmt == 'ja':
                poss = [p for p in (tok.get(k, '*') for k in ('pos', 'pos1', 'pos2', 'pos3')) if p != '*']
                infl = [p for p in (tok.get(k, '*') for k in ('inflectionForm', 'inflectionType')) if p != '*']
                rw = raw_word(w)
                return codecs.L(cat_text(node.cat), rw, word2=rw, pos='-'.join(poss) if poss else '_',
                                inflection='-'.join(infl) if infl else '_')
            raise ValueError(fmt)
        kids = [rec(c) for c in node.children]
        label = {
            'auto': None, 'conll': None, 'ptb': None,
            'auto_extended': node.op_string, 'xml': node.op_string, 'json': node.op_string, 'html': node.op_string,
            'jigg_xml': node.op_symbol if lang == 'ja' else node.op_string,
            'deriv': node.op_symbol, 'ja': node.op_symbol,
        }.get(fmt)
        if fmt == 'prolog':
            if node.is_unary:
                label = 'lx' if lang == 'en' else PL_JA_RULE.get(node.op_symbol)
            else:
                label = PL_EN_RULE.get(node.op_string) if lang == 'en' else PL_JA_RULE.get(node.op_symbol)
            cat = prolog_cat_en(node.cat) if lang == 'en' else prolog_cat_ja(node.cat)
        elif fmt == 'jigg_xml':
            cat = jigg_cat(node.cat)
        else:
            cat = cat_text(node.cat)
        head = bool(node.head_is_left) if fmt in ('auto', 'auto_extended', 'conll') else None
        if len(kids) == 1:
            n = codecs.U(cat, label, kids[0])
            if head is not None:
                n['head_left'] = head
            return n
        n = codecs.B(cat, label, head, kids[0], kids[1])
        if fmt == 'prolog' and lang == 'en' and node.op_string == 'conj' and node.cat.is_functor:
            n['conj_arg'] = prolog_cat_en(node.cat.left)
        return n
    return rec(tree)


def conll_heads(tree):
    """head assignment implied by the head flags: 0 for the root word, else 1-based index of the governing word"""
    heads = {}
    counter = [0]

    def rec(node):
        if node.is_leaf:
            i = counter[0]
            counter[0] += 1
            return i
        if node.is_unary:
            return rec(node.children[0])
        l = rec(node.children[0])
        r = rec(node.children[1])
        h, c = (l, r) if node.head_is_left else (r, l)
        heads[c] = h + 1
        return h
    root = rec(tree)
    heads[root] = 0
    return [heads[i] for i in range(counter[0])]


def compare(exp, got, fmt, path='root'):
    """list of (kind, message); kind in words|shape|category|label|head|attribute|offset"""
    out = []
    if exp['k'] != got['k']:
        return [('shape', f'{path}: expected a {exp["k"]} node, decoded a {got["k"]} node')]
    if exp['cat'] != got['cat']:
        out.append(('category', f'{path}: category {got["cat"]!r}, expected {exp["cat"]!r}'))
    if exp['k'] == 'L':
        ew, gw = exp['word'], got['word']
        if fmt == 'ptb':
            ok = gw in (ew, escaped_word(ew), raw_word(ew))
        else:
            ok = ew == gw
        if not ok:
            out.append(('words', f'{path}: word {gw!r}, expected {ew!r}'))
        for k, v in exp['attrs'].items():
            if got['attrs'].get(k) != v:
                kind = 'offset' if k in ('start', 'span', 'begin', 'end') else 'attribute'
                out.append((kind, f'{path}: {k}={got["attrs"].get(k)!r}, expected {v!r}'))
        return out
    if exp.get('label') is not None and exp['label'] != got.get('label'):
        out.append(('label', f'{path}: rule label {got.get("label")!r}, expected {exp["label"]!r}'))
    if exp.get('head_left') is not None and got.get('head_left') is not None and exp['head_left'] != got['head_left']:
        out.append(('head', f'{path}: head_is_left {got["head_left"]}, expected {exp["head_left"]}'))
    # LangPro terms repeat categories: lx(cat, CHILD, term) names the category of the term it wraps, and the lp term
    # inside lx(..., lp(..)) carries the category of its right part; conj(cat, ARG, ..) repeats the argument of cat
    if 'child_cat' in got and got['child_cat'] != exp['child']['cat']:
        out.append(('category', f'{path}: lx names its child category {got["child_cat"]!r}, the child is {exp["child"]["cat"]!r}'))
    if 'lp_cat' in got and not (got['lp_cat'] == got.get('lx_cat') == exp['r']['cat']):
        out.append(('category', f'{path}: lx/lp name the inner category {got.get("lx_cat")!r}/{got["lp_cat"]!r}, the right part is {exp["r"]["cat"]!r}'))
    if 'conj_arg' in got and exp.get('conj_arg') is not None and got['conj_arg'] != exp['conj_arg']:
        out.append(('category', f'{path}: conj names the argument {got["conj_arg"]!r}, expected {exp["conj_arg"]!r}'))
    if exp['k'] == 'U':
        return out + compare(exp['child'], got['child'], fmt, path + '/0')
    return out + compare(exp['l'], got['l'], fmt, path + '/0') + compare(exp['r'], got['r'], fmt, path + '/1')

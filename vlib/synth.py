"""Synthetic table grammars (picklable callables) and score matrices for the search checks."""
import numpy as np


class SCat:
    """opaque category for synthetic grammars: hashable, picklable, value semantics"""
    __slots__ = ('i',)

    def __init__(self, i):
        self.i = i

    def __eq__(self, other):
        return isinstance(other, SCat) and other.i == self.i

    def __hash__(self):
        return hash(('SCat', self.i))

    def __repr__(self):
        return f'c{self.i}'

    __str__ = __repr__

    def __reduce__(self):
        return (SCat, (self.i,))


class TableGrammar:
    """binary: (x, y) -> [(cat, label, symbol, head_is_left)], unary: x -> [(cat, label, symbol)]"""

    def __init__(self, binary, unary, delay=None):
        self.binary, self.unary = binary, unary
        self.calls = 0

    def apply_binary(self, x, y):
        from depccg.types import CombinatorResult
        self.calls += 1
        return [CombinatorResult(SCat(c), lab, sym, h) for c, lab, sym, h in self.binary.get((x.i, y.i), ())]

    def apply_unary(self, x):
        from depccg.types import CombinatorResult
        return [CombinatorResult(SCat(c), lab, sym, True) for c, lab, sym in self.unary.get(x.i, ())]


class BinaryFun:
    def __init__(self, g, delays=None):
        self.g, self.delays = g, delays

    def __call__(self, x, y):
        return self.g.apply_binary(x, y)


class UnaryFun:
    def __init__(self, g):
        self.g = g

    def __call__(self, x):
        return self.g.apply_unary(x)


def random_grammar(rng, ncat, ntags, head_left=None, density=None, max_results=3, unary_p=0.25, mixed_heads=False, fat=False):
    """categories 0..ncat-1; tags are 0..ntags-1 (input list), the rest are created only by rules.
    Labels are unique per result so that trees and derivations are in bijection."""
    if head_left is None:
        head_left = rng.random() < 0.5
    if density is None:
        density = rng.choice((0.15, 0.3, 0.5, 0.8))
    binary, unary, k = {}, {}, 0
    for x in range(ncat):
        for y in range(ncat):
            if rng.random() < density:
                res = []
                for _ in range(rng.randint(1, max_results)):
                    h = head_left if not mixed_heads else rng.random() < 0.5
                    res.append((rng.randrange(ncat), f'b{k}', f'<b{k}>' if k % 5 else f'<Φ{k}>', h))      # some symbols are not ASCII (as <Φ> of the English grammar)
                    k += 1
                if rng.random() < 0.3 and len(res) >= 2:      # same category, different label (any two positions)
                    i, j = sorted(rng.sample(range(len(res)), 2))
                    res[j] = (res[i][0],) + res[j][1:]
                binary[(x, y)] = res
    for x in range(ncat - 1):
        if rng.random() < unary_p:
            res = []
            for _ in range(rng.randint(1, 3)):
                res.append((rng.randrange(x + 1, ncat), f'u{k}', f'<u{k}>'))      # acyclic: targets have larger ids
                k += 1
            if len(res) >= 2 and rng.random() < 0.3:
                res[1] = (res[0][0],) + res[1][1:]
            unary[x] = res
    if fat and ncat >= 30:
        # a few pairs of tag categories (so that they are really used) and one unary entry with 17-24 results: result indices
        # beyond 16, as a large grammar has them
        for _ in range(rng.randint(1, 3)):
            x, y = rng.randrange(ntags), rng.randrange(ntags)
            res = []
            for c in rng.sample(range(ncat), rng.randint(17, 24)):
                h = head_left if not mixed_heads else rng.random() < 0.5
                res.append((c, f'b{k}', f'<b{k}>', h))
                k += 1
            binary[(x, y)] = res
        x = rng.randrange(ntags)
        res = []
        for c in rng.sample(range(x + 1, ncat), min(ncat - x - 1, rng.randint(17, 20))):
            res.append((c, f'u{k}', f'<u{k}>'))
            k += 1
        unary[x] = res
    return TableGrammar(binary, unary), head_left


def dyadic_scores(rng, n, ntags, family='uniform', denom=8):
    """multiples of 1/denom in [-16, 0]: every float32 sum the search forms is exact"""
    nrng = np.random.default_rng(rng.randrange(2**32))
    hi = 16 * denom
    if family == 'uniform':
        tag = -nrng.integers(0, hi // 2, size=(n, ntags))
        dep = -nrng.integers(0, hi // 2, size=(n, n + 1))
    elif family == 'deceptive':
        # a locally best tag / attachment that is globally bad
        tag = -nrng.integers(hi // 8, hi // 2, size=(n, ntags))
        dep = -nrng.integers(hi // 8, hi // 2, size=(n, n + 1))
        for i in range(n):
            tag[i, nrng.integers(ntags)] = -nrng.integers(0, 3)
            dep[i, nrng.integers(n + 1)] = -nrng.integers(0, 3)
    else:   # ties
        tag = -nrng.integers(0, 4, size=(n, ntags)) * (denom // 2)
        dep = -nrng.integers(0, 4, size=(n, n + 1)) * (denom // 2)
    return (tag / denom).astype(np.float32), (dep / denom).astype(np.float32)


def logsoftmax_scores(rng, n, ntags, temp=1.0):
    nrng = np.random.default_rng(rng.randrange(2**32))

    def ls(a):
        a = a - a.max(1, keepdims=True)
        return (a - np.log(np.exp(a).sum(1, keepdims=True))).astype(np.float32)
    return ls(nrng.standard_normal((n, ntags)) * temp), ls(nrng.standard_normal((n, n + 1)) * temp)

"""Reference statement of the Japanese combinatory schemas and unary labels (C04), over refcat tuples."""
from vlib import refcat, refunify
from vlib.schemas_en import is_inst, is_modifier, forced_bindings

P = refcat.ref_parse


def bs(a, c):
    return ('F', a, '\\', c)


def fs(a, c):
    return ('F', a, '/', c)


# symbol: (op_string, pattern x, pattern y, which input is the primary functor (modifier shortcut), builder)
ROWS = {
    '>': ('fa', 'a/b', 'b', 'x', lambda b, x, y: b['a']),
    '<': ('ba', 'b', 'a\\b', 'y', lambda b, x, y: b['a']),
    '>B': ('fc', 'a/b', 'b/c', 'x', lambda b, x, y: fs(b['a'], b['c'])),
    '<B1': ('bx', 'b\\c', 'a\\b', 'y', lambda b, x, y: bs(b['a'], b['c'])),
    '<B2': ('bx', '(b\\c)|d', 'a\\b', 'y', lambda b, x, y: ('F', bs(b['a'], b['c']), x[2], b['d'])),
    '<B3': ('bx', '((b\\c)|d)|e', 'a\\b', 'y',
            lambda b, x, y: ('F', ('F', bs(b['a'], b['c']), x[1][2], b['d']), x[2], b['e'])),
    '<B4': ('bx', '(((b\\c)|d)|e)|f', 'a\\b', 'y',
            lambda b, x, y: ('F', ('F', ('F', bs(b['a'], b['c']), x[1][1][2], b['d']), x[1][2], b['e']), x[2], b['f'])),
    # crossed composition keeps the slash of the secondary functor (b\c): the result is a\c
    '>Bx1': ('fx', 'a/b', 'b\\c', 'x', lambda b, x, y: bs(b['a'], b['c'])),
    '>Bx2': ('fx', 'a/b', '(b\\c)|d', 'x', lambda b, x, y: ('F', bs(b['a'], b['c']), y[2], b['d'])),
    '>Bx3': ('fx', 'a/b', '((b\\c)|d)|e', 'x',
             lambda b, x, y: ('F', ('F', bs(b['a'], b['c']), y[1][2], b['d']), y[2], b['e'])),
}
ROW_PATTERNS = {k: (P(v[1]), P(v[2])) for k, v in ROWS.items()}

ROOTS = [P(s) for s in (
    "NP[case=nc,mod=nm,fin=f]", "NP[case=nc,mod=nm,fin=t]", "S[mod=nm,form=attr,fin=t]", "S[mod=nm,form=base,fin=f]",
    "S[mod=nm,form=base,fin=t]", "S[mod=nm,form=cont,fin=f]", "S[mod=nm,form=cont,fin=t]", "S[mod=nm,form=da,fin=f]",
    "S[mod=nm,form=da,fin=t]", "S[mod=nm,form=hyp,fin=t]", "S[mod=nm,form=imp,fin=f]", "S[mod=nm,form=imp,fin=t]",
    "S[mod=nm,form=r,fin=t]", "S[mod=nm,form=s,fin=t]", "S[mod=nm,form=stem,fin=f]", "S[mod=nm,form=stem,fin=t]")]


def justified(x, y, res):
    cat, label, symbol, head = res
    if head is not False:
        return False, 'head is not the right child'
    if symbol == 'SSEQ':
        if label == 'other' and x in ROOTS and y in ROOTS and cat == y:
            return True, ''
        return False, 'SSEQ premises do not hold (both inputs must be sentence-level root categories, result is the second)'
    if symbol not in ROWS:
        return False, f'unknown symbol {symbol!r}'
    op, _, _, primary, build = ROWS[symbol]
    if label != op:
        return False, f'label {label!r} does not belong to symbol {symbol!r} ({op!r})'
    px, py = ROW_PATTERNS[symbol]
    ok, bx, by = refunify.ref_match(px, py, x, y)
    if ok is None:
        return None, 'outside the domain'
    if not ok:
        return False, f'premises of {symbol} do not hold'
    prim, other = (x, y) if primary == 'x' else (y, x)
    if is_modifier(prim):
        if cat == other:
            return True, ''
        return False, f'modifier must return the other category {refcat.ref_print(other)} unchanged'
    b = {k: v[0] for k, v in bx.items()}
    b.update({k: v[0] for k, v in by.items() if k not in b})
    want = build(b, x, y)
    if refcat.blind(cat) != refcat.blind(want):
        return False, f'result shape differs from the schema result {refcat.ref_print(want)}'
    feats = {a[2] for a in refcat.atoms(x) + refcat.atoms(y)} | {None}
    # shared variable b may be taken from either occurrence: check against both instantiation sources
    b2 = dict(b)
    b2.update({k: v[0] for k, v in by.items()})
    # a variable triple that meets one and the same concrete triple at every occurrence in the matched parts is that triple
    forced = forced_bindings(bx['b'][0], by['b'][0]) if bx.get('b') and by.get('b') else {}
    if is_inst(cat, want, feats, forced) or is_inst(cat, build(b2, x, y), feats, forced):
        return True, ''
    return False, f'features of the result do not come from the schema parts/inputs (schema: {refcat.ref_print(want)})'


def unary_label(x):
    """label implied by the shape of the input of a type-changing step; None = statement is silent"""
    head = x
    nargs = 0
    while head[0] == 'F':
        if head[2] != '\\':
            return None
        head, nargs = head[1], nargs + 1
    f = head[2]
    if f is None or f[0] != 'T':
        return None
    kv = dict(f[1])
    shape = refcat.blind(x)
    S, NP = ('A', 'S', None), ('A', 'NP', None)
    if kv.get('mod') == 'adn':
        if head[1] != 'S':
            return None
        return 'ADNext' if nargs == 0 else 'ADNint'
    if kv.get('mod') == 'adv':
        if shape == S or shape == NP:
            return 'ADV0'
        if shape == bs(S, NP):
            return 'ADV1'
        if shape == bs(bs(S, NP), NP):
            return 'ADV2'
        return None
    return None


def unary_family(x):
    """the set of labels the statement names for inputs with this mod value (None if it names none)"""
    head = x
    while head[0] == 'F':
        head = head[1]
    f = head[2]
    if f is None or f[0] != 'T':
        return None
    mod = dict(f[1]).get('mod')
    if mod == 'adn':
        return {'ADNext', 'ADNint'}
    if mod == 'adv':
        return {'ADV0', 'ADV1', 'ADV2'}
    return None


NAMED_UNARY = {'ADNext', 'ADNint', 'ADV0', 'ADV1', 'ADV2'}


def unary_plain(x):
    """the clause (head atom) carries a feature triple whose mod value is neither adn nor adv: none of the five named
    labels describes such an input"""
    head = x
    while head[0] == 'F':
        head = head[1]
    f = head[2]
    return f is not None and f[0] == 'T' and dict(f[1]).get('mod') not in ('adn', 'adv', None) \
        and not str(dict(f[1]).get('mod')).startswith('X')

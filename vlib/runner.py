"""Common driver: shards a check's workload over subprocesses, merges what the monitors
observed, classifies violations against known_findings.json, writes evidence/<ID>.json.

Exit codes: 0 = held on everything observed (known findings are printed, not failed),
1 = at least one violation that known_findings.json does not list, 2 = inconclusive.
"""
import argparse
import concurrent.futures
import hashlib
import importlib
import json
import os
import random
import re
import subprocess
import sys
import time
import traceback

VERIF = os.path.dirname(os.path.dirname(os.path.abspath(__file__)))
PY = '/venv/bin/python'
MAX_FPS = 60000          # fingerprints reported per shard (distinct_nontrivial is counted on these)
MAX_REPLAYS_PER_KEY = 3
MAX_SAMPLES = 6


def stable_hash(obj):
    return hashlib.blake2b(repr(obj).encode('utf-8', 'surrogatepass'), digest_size=8).hexdigest()


class Recorder:
    """What one shard observed."""

    def __init__(self, spec):
        self.spec = spec
        self.evaluations = 0
        self.fps = set()
        self.fps_overflow = 0
        self.violations = []
        self.vcount = {}
        self.monitors = {}
        self.samples = []
        self.extra = {}
        self.inconclusive = []
        self.t0 = time.time()
        self.budget = spec.get('budget_s', 1e9)
        self.last_path = spec.get('_last_path')

    # -- workload accounting
    def case(self, fp=None, nontrivial=False):
        self.evaluations += 1
        if nontrivial and fp is not None:
            if len(self.fps) < MAX_FPS:
                self.fps.add(fp if isinstance(fp, str) and len(fp) == 16 else stable_hash(fp))
            else:
                self.fps_overflow += 1

    def count(self, monitor, n=1):
        self.monitors[monitor] = self.monitors.get(monitor, 0) + n

    def hist(self, name, key, n=1):
        h = self.extra.setdefault(name, {})
        h[key] = h.get(key, 0) + n

    def sample(self, obj, limit=MAX_SAMPLES):
        if len(self.samples) < limit:
            self.samples.append(obj)

    def out_of_time(self):
        return time.time() - self.t0 > self.budget

    def last(self, witness):
        """Persist the case about to be executed (native shards: survives an abort)."""
        if self.last_path:
            with open(self.last_path, 'w') as f:
                json.dump(witness, f)

    # -- verdicts
    def violation(self, key, what, witness):
        n = self.vcount.get(key, 0)
        self.vcount[key] = n + 1
        if n < MAX_REPLAYS_PER_KEY:
            self.violations.append({'key': key, 'what': what, 'witness': witness})

    def inconclusive_because(self, reason):
        self.inconclusive.append(reason)

    def report(self):
        return {
            'shard': self.spec.get('name'),
            'evaluations': self.evaluations,
            'fps': sorted(self.fps),
            'fps_overflow': self.fps_overflow,
            'violations': self.violations,
            'vcount': self.vcount,
            'monitors': self.monitors,
            'samples': self.samples,
            'extra': self.extra,
            'inconclusive': self.inconclusive,
            'wall_s': round(time.time() - self.t0, 3),
        }


def shard_rng(prop, seed, name):
    return random.Random(f'{prop}:{seed}:{name}')


def _load(prop):
    return importlib.import_module(f'vlib.checks.{prop}')


def _asan_env(logbase):
    rt = subprocess.run(['clang', '-print-file-name=libclang_rt.asan-x86_64.so'],
                        capture_output=True, text=True).stdout.strip()
    return {
        'LD_PRELOAD': rt,
        'ASAN_OPTIONS': f'detect_leaks=0:halt_on_error=1:abort_on_error=0:exitcode=97:log_path={logbase}:'
                        'allocator_may_return_null=1:symbolize=1',
        'UBSAN_OPTIONS': f'halt_on_error=1:print_stacktrace=1:exitcode=97:log_path={logbase}',
        'ASAN_SYMBOLIZER_PATH': '/usr/bin/llvm-symbolizer-14',
    }


def _run_shard_subprocess(prop, spec, workdir):
    name = spec['name']
    spec_path = os.path.join(workdir, f'{name}.spec.json')
    out_path = os.path.join(workdir, f'{name}.report.json')
    last_path = os.path.join(workdir, f'{name}.last.json')
    logbase = os.path.join(workdir, f'{name}.san')
    spec = dict(spec, _last_path=last_path)
    with open(spec_path, 'w') as f:
        json.dump(spec, f)
    env = dict(os.environ)
    env['PYTHONHASHSEED'] = str(spec.get('hashseed', 0))
    env['DEPCCG_VERIF'] = '1'
    env['PYTHONWARNINGS'] = 'ignore'
    env.pop('PYTHONPATH', None)
    if spec.get('build') == 'asan':
        env.update(_asan_env(logbase))
    # generous wall-clock watchdog (its firing is inconclusive, never a verdict): three times the shard's own time budget
    timeout = max(spec.get('timeout', 900), 3 * int(spec.get('budget_s', 0)) + 300)
    cmd = [PY, os.path.join(VERIF, 'vcheck'), prop, '--shard', spec_path, '--out', out_path]
    vglog = os.path.join(workdir, f'{name}.valgrind')
    if spec.get('valgrind'):
        env['PYTHONMALLOC'] = 'malloc'
        cmd = ['valgrind', '--tool=memcheck', '--error-exitcode=0', '--num-callers=25', f'--log-file={vglog}'] + cmd
    t0 = time.time()
    def limit():
        if spec.get('build') != 'asan':
            import resource
            resource.setrlimit(resource.RLIMIT_AS, (8 << 30, 8 << 30))
    try:
        p = subprocess.run(cmd, env=env, capture_output=True, text=True, timeout=timeout, cwd=VERIF, preexec_fn=limit)
        rc, err = p.returncode, (p.stderr or '')[-4000:]
    except subprocess.TimeoutExpired as e:
        rc, err = 'timeout', ((e.stderr.decode('utf-8', 'replace') if isinstance(e.stderr, bytes) else e.stderr) or '')[-2000:]
    res = {'name': name, 'rc': rc, 'stderr': err, 'wall_s': round(time.time() - t0, 2), 'report': None,
           'sanitizer_logs': [], 'last': None, 'spec': spec}
    if os.path.exists(out_path):
        try:
            res['report'] = json.load(open(out_path))
        except Exception as e:  # truncated by a crash
            res['stderr'] += f'\n[report unreadable: {e}]'
    if spec.get('valgrind') and os.path.exists(vglog):
        res['valgrind_blocks'] = _valgrind_blocks(open(vglog, errors='replace').read())
        res['valgrind_ran'] = 'ERROR SUMMARY' in open(vglog, errors='replace').read()
    for fn in sorted(os.listdir(workdir)):
        if fn.startswith(f'{name}.san'):
            res['sanitizer_logs'].append(open(os.path.join(workdir, fn), errors='replace').read()[-6000:])
    if os.path.exists(last_path):
        try:
            res['last'] = json.load(open(last_path))
        except Exception:
            pass
    return res


def _valgrind_blocks(text):
    """memcheck error blocks that have a frame inside the shim / parsing.h (loader and interpreter noise is dropped)"""
    out, cur = [], []
    for line in text.split('\n'):
        body = re.sub(r'^==\d+== ?', '', line)
        if body.strip() == '':
            if cur:
                blk = '\n'.join(cur)
                if re.search(r'shim_|parsing\.h|parse_sentence|parsing::', blk) and re.match(r'(Conditional|Use of|Invalid|Syscall|Mismatched|Source and)', cur[0]):
                    out.append(blk[:3000])
                cur = []
        else:
            cur.append(body)
    return out


def _sanitizer_key(log):
    kind = 'ubsan' if 'runtime error' in log else 'asan'
    m = re.search(r'#\d+ 0x[0-9a-f]+ in (\S+)', log)
    frame = m.group(1) if m else 'unknown'
    if kind == 'ubsan':
        m2 = re.search(r'([\w./-]+):(\d+):\d+: runtime error: ([^\n]{0,60})', log)
        if m2:
            frame = f'{os.path.basename(m2.group(1))}:{m2.group(3).strip()[:40]}'
    return f'sanitizer:{kind}:{frame}'


def load_known():
    path = os.path.join(VERIF, 'known_findings.json')
    if not os.path.exists(path):
        return []
    return json.load(open(path)).get('findings', [])


def main(argv=None):
    ap = argparse.ArgumentParser()
    ap.add_argument('prop')
    ap.add_argument('--tier', default=os.environ.get('VERIF_TIER') or 'quick', choices=['quick', 'thorough'])
    ap.add_argument('--seed', type=int, default=int(os.environ.get('VERIF_SEED') or 0))
    ap.add_argument('--shard')
    ap.add_argument('--out')
    ap.add_argument('--replay')
    ap.add_argument('--jobs', type=int, default=int(os.environ.get('VERIF_JOBS') or 16))
    ap.add_argument('--keep', action='store_true', help='keep the work directory')
    args = ap.parse_args(argv)
    prop = args.prop

    if args.shard:
        return _shard_main(prop, args)
    if args.replay:
        return _replay_main(prop, args)

    t0 = time.time()
    from vlib import env as venv
    mod = _load(prop)
    outroot = os.environ.get('VERIF_OUT') or VERIF        # scratch runs against seeded changes write elsewhere
    os.makedirs(os.path.join(outroot, 'evidence'), exist_ok=True)
    os.makedirs(os.path.join(outroot, 'replay'), exist_ok=True)
    import tempfile
    workdir = tempfile.mkdtemp(prefix=f'verif-{prop}-')
    inconclusive = []
    prep_extra = {}
    try:
        if hasattr(mod, 'prepare'):
            # builds native code / installs deps; returns extra env-independent facts or raises Inconclusive
            prep_extra = mod.prepare(args.tier, args.seed) or {}
    except Inconclusive as e:
        inconclusive.append(str(e))
    specs = [] if inconclusive else mod.shards(args.tier, args.seed)
    results = []
    with concurrent.futures.ThreadPoolExecutor(max_workers=max(1, args.jobs)) as ex:
        futs = [ex.submit(_run_shard_subprocess, prop, dict(s, tier=args.tier, seed=args.seed), workdir) for s in specs]
        for f in futs:
            results.append(f.result())

    merged = {'evaluations': 0, 'fps': set(), 'fps_overflow': 0, 'violations': [], 'vcount': {}, 'monitors': {},
              'samples': [], 'extra': {}, 'shards': []}
    for r in results:
        rep = r['report']
        shard_info = {'name': r['name'], 'rc': r['rc'], 'wall_s': r['wall_s']}
        merged['shards'].append(shard_info)
        san_logs = [l for l in r['sanitizer_logs'] if l.strip()]
        if san_logs:
            for log in san_logs[:2]:
                key = _sanitizer_key(log)
                merged['vcount'][key] = merged['vcount'].get(key, 0) + 1
                merged['violations'].append({'key': key, 'what': 'sanitizer report while running the search',
                                             'witness': {'case': r['last'], 'log': log, 'shard': r['spec']}})
        for blk in (r.get('valgrind_blocks') or [])[:3]:
            m = re.search(r'(?:at|by) 0x[0-9A-F]+: (\S+) \((parsing\.h:\d+|shim[^)]*)\)', blk)
            key = 'sanitizer:valgrind:' + (blk.split('\n')[0][:40].strip().replace(' ', '-') + ':' + (m.group(1) if m else 'unknown'))
            merged['vcount'][key] = merged['vcount'].get(key, 0) + 1
            merged['violations'].append({'key': key, 'what': 'valgrind memcheck report with a frame inside the search',
                                         'witness': {'log': blk, 'shard': r['spec']}})
        if r['spec'].get('valgrind'):
            merged['monitors']['valgrind:shards-completed'] = merged['monitors'].get('valgrind:shards-completed', 0) + (1 if r.get('valgrind_ran') else 0)
        if rep is None:
            if r['rc'] == 'timeout':
                inconclusive.append(f'shard {r["name"]} hit the wall-clock watchdog')
            elif not san_logs:
                if r['last'] is not None and isinstance(r['rc'], int) and r['rc'] < 0:
                    key = f'crash:signal{-r["rc"]}'
                    merged['vcount'][key] = merged['vcount'].get(key, 0) + 1
                    merged['violations'].append({'key': key, 'what': 'interpreter killed by a signal inside the search',
                                                 'witness': {'case': r['last'], 'stderr': r['stderr'], 'shard': r['spec']}})
                else:
                    inconclusive.append(f'shard {r["name"]} produced no report (rc={r["rc"]}): {r["stderr"][-600:]}')
            continue
        merged['evaluations'] += rep['evaluations']
        merged['fps'].update(rep['fps'])
        merged['fps_overflow'] += rep['fps_overflow']
        for v in rep['violations']:
            v = dict(v)
            v.setdefault('shard', r['spec'])
            merged['violations'].append(v)
        for k, n in rep['vcount'].items():
            merged['vcount'][k] = merged['vcount'].get(k, 0) + n
        for k, n in rep['monitors'].items():
            merged['monitors'][k] = merged['monitors'].get(k, 0) + n
        for s in rep['samples']:
            if len(merged['samples']) < MAX_SAMPLES:
                merged['samples'].append(s)
        _merge_extra(merged['extra'], rep['extra'])
        for reason in rep['inconclusive']:
            inconclusive.append(f'{r["name"]}: {reason}')

    if hasattr(mod, 'finish') and not inconclusive:
        try:
            mod.finish(merged, results, args.tier, args.seed, inconclusive)
        except Exception:
            inconclusive.append('finish() failed: ' + traceback.format_exc()[-800:])

    for name, need in getattr(mod, 'REQUIRED_MONITORS', {}).items():
        if merged['monitors'].get(name, 0) < need:
            inconclusive.append(f'monitor {name} fired {merged["monitors"].get(name, 0)} times (< {need})')

    known = {(k['property'], k['key']): k for k in load_known() if k.get('status') == 'known'}
    seen_keys = {}
    new_violations = 0
    lines = []
    for v in merged['violations']:
        key = v['key']
        n = seen_keys.get(key, 0)
        seen_keys[key] = n + 1
        if (prop, key) in known:
            if n == 0:
                lines.append(f'KNOWN-FINDING: property={prop} {key}: {known[(prop, key)]["what"]} '
                             f'(observed {merged["vcount"].get(key, 1)}x)')
            continue
        if n >= MAX_REPLAYS_PER_KEY:
            continue
        new_violations += 1
        path = os.path.join(outroot, 'replay', f'{prop}-{re.sub(r"[^A-Za-z0-9_.-]+", "_", key)[:60]}-{args.seed}-{n}.json')
        with open(path, 'w') as f:
            json.dump({'property': prop, 'key': key, 'what': v['what'], 'witness': v['witness'],
                       'shard': v.get('shard'), 'tier': args.tier, 'seed': args.seed}, f, indent=1, default=str)
        lines.append(f'VIOLATION property={prop} replay={path}')
        lines.append(f'  key={key} what={v["what"][:300]}')

    unknown_total = sum(n for k, n in merged['vcount'].items() if (prop, k) not in known)
    distinct = len(merged['fps'])
    if merged['evaluations'] == 0 or distinct < 2:
        if not new_violations:
            inconclusive.append(f'observed too little: evaluations={merged["evaluations"]} distinct_nontrivial={distinct}')

    coverage = {
        'evaluations': merged['evaluations'],
        'distinct_nontrivial': distinct,
        'rule': getattr(mod, 'RULE', ''),
        'samples': merged['samples'] or ['(no sample recorded)'],
        'monitors': merged['monitors'],
        'violation_keys': merged['vcount'],
        'known_finding_keys': sorted(k for k in merged['vcount'] if (prop, k) in known),
        'fingerprints_not_counted_beyond_cap': merged['fps_overflow'],
        'shards': merged['shards'],
        'repo': venv.REPO,
        'inconclusive_reasons': inconclusive,
    }
    coverage.update(prep_extra)
    coverage.update(merged['extra'])
    evidence = {
        'property_id': prop,
        'tier': args.tier,
        'seed': args.seed,
        'level': getattr(mod, 'LEVEL', 'exploration'),
        'coverage': coverage,
        'assumptions': getattr(mod, 'ASSUMPTIONS', []),
        'wall_s': round(time.time() - t0, 2),
        'violations': unknown_total,
    }
    with open(os.path.join(outroot, 'evidence', f'{prop}.json'), 'w') as f:
        json.dump(evidence, f, indent=1, default=str, sort_keys=True)
    if not args.keep:
        import shutil
        shutil.rmtree(workdir, ignore_errors=True)

    for line in lines:
        print(line)
    mon = ' '.join(f'{k}={v}' for k, v in sorted(merged['monitors'].items()))
    print(f'[{prop}] tier={args.tier} seed={args.seed} evaluations={merged["evaluations"]} '
          f'distinct_nontrivial={distinct} violations={unknown_total} wall={evidence["wall_s"]}s {mon}')
    if new_violations:
        return 1
    if inconclusive:
        for reason in inconclusive[:10]:
            print(f'INCONCLUSIVE property={prop} reason={reason}')
        return 2
    return 0


def _merge_extra(dst, src):
    for k, v in src.items():
        if isinstance(v, dict):
            d = dst.setdefault(k, {})
            if isinstance(d, dict):
                _merge_extra(d, v)
        elif isinstance(v, (int, float)) and not isinstance(v, bool):
            dst[k] = dst.get(k, 0) + v
        elif isinstance(v, list):
            lst = dst.setdefault(k, [])
            for x in v:
                if x not in lst and len(lst) < 40:
                    lst.append(x)
        else:
            dst.setdefault(k, v)


class Inconclusive(Exception):
    pass


def _shard_main(prop, args):
    sys.setrecursionlimit(20000)
    spec = json.load(open(args.shard))
    mod = _load(prop)
    R = Recorder(spec)
    try:
        mod.run(spec, R)
    except Inconclusive as e:
        R.inconclusive_because(str(e))
    except Exception:
        R.inconclusive_because('harness error: ' + traceback.format_exc()[-1500:])
    with open(args.out + '.tmp', 'w') as f:
        json.dump(R.report(), f, default=str)
    os.replace(args.out + '.tmp', args.out)
    return 0


def _replay_main(prop, args):
    mod = _load(prop)
    data = json.load(open(args.replay))
    spec = dict(data.get('shard') or {}, name='replay')
    R = Recorder(spec)
    if not hasattr(mod, 'replay'):
        print(f'{prop}: no replay entry point; witness follows')
        print(json.dumps(data['witness'], indent=1)[:4000])
        return 0
    mod.replay(data['witness'], R)
    rep = R.report()
    for v in rep['violations']:
        print(f'VIOLATION property={prop} replay={args.replay}')
        print(f'  key={v["key"]} what={v["what"][:500]}')
    print(f'[{prop}] replay evaluations={rep["evaluations"]} violations={sum(rep["vcount"].values())}')
    return 1 if rep['violations'] else 0

"""Independent decoders, one per output format, written from the format definitions (DESIGN 9.1).
None of them imports anything from depccg.printer / depccg.tools.

Decoded node shapes (dicts):
  leaf : {'k': 'L', 'cat': str, 'word': str, 'attrs': {...}}
  unary: {'k': 'U', 'cat': str, 'label': str|None, 'child': node}
  bin  : {'k': 'B', 'cat': str, 'label': str|None, 'head_left': bool|None, 'l': node, 'r': node}
A decoded record is {'sentence': int, 'nbest': int|None, 'tree': node, ...extras}.
"""
import html as _html
import json
import re

from lxml import etree


class DecodeError(Exception):
    pass


def L(cat, word, **attrs):
    return {'k': 'L', 'cat': cat, 'word': word, 'attrs': attrs}


def U(cat, label, child, **extra):
    return dict({'k': 'U', 'cat': cat, 'label': label, 'child': child}, **extra)


def B(cat, label, head_left, l, r, **extra):
    return dict({'k': 'B', 'cat': cat, 'label': label, 'head_left': head_left, 'l': l, 'r': r}, **extra)


def leaves(node):
    if node['k'] == 'L':
        return [node]
    if node['k'] == 'U':
        return leaves(node['child'])
    return leaves(node['l']) + leaves(node['r'])


# ---------------------------------------------------------------------- headers of the line formats
HEADER = re.compile(r'^(# )?ID=(\d+)(?:, | ?\n?# )?log probability=(\S+)$')


def split_records(text, conll=False):
    """[(sentence number, log prob text, body lines)] for auto/auto_extended/ja/deriv/ptb/conll output of to_string"""
    recs, cur = [], None
    lines = text.split('\n')
    i = 0
    while i < len(lines):
        line = lines[i]
        if conll:
            m = re.match(r'^# ID=(\d+)$', line)
            if m and i + 1 < len(lines) and lines[i + 1].startswith('# log probability='):
                cur = [int(m.group(1)), lines[i + 1][len('# log probability='):], []]
                recs.append(cur)
                i += 2
                continue
        else:
            m = re.match(r'^ID=(\d+), log probability=(\S+)$', line)
            if m:
                cur = [int(m.group(1)), m.group(2), []]
                recs.append(cur)
                i += 1
                continue
        if cur is None:
            if line.strip():
                raise DecodeError(f'text before the first header: {line!r}')
        else:
            cur[2].append(line)
        i += 1
    return recs


# ---------------------------------------------------------------------- auto / auto_extended
def decode_auto_line(line, extended=False):
    toks = line.split(' ')
    pos = 0

    def need(i):
        if i >= len(toks):
            raise DecodeError('auto: truncated line')
        return toks[i]

    def node():
        nonlocal pos
        t = need(pos)
        if t == '(<T':
            cat = need(pos + 1)
            if extended:
                rule, head, nstr = need(pos + 2), need(pos + 3), need(pos + 4)
                pos += 5
            else:
                rule, head, nstr = None, need(pos + 2), need(pos + 3)
                pos += 4
            if not nstr.endswith('>') or head not in ('0', '1'):
                raise DecodeError(f'auto: bad <T header near {cat!r}')
            n = int(nstr[:-1])
            kids = [node() for _ in range(n)]
            if need(pos) != ')':
                raise DecodeError('auto: missing closer')
            pos += 1
            if n == 1:
                return U(cat, rule, kids[0], head_left=head == '0')
            if n == 2:
                return B(cat, rule, head == '0', kids[0], kids[1])
            raise DecodeError(f'auto: {n} children')
        if t == '(<L':
            if extended:
                cat, word, lemma, p, ent, chunk, cat2 = (need(pos + k) for k in range(1, 8))
                pos += 8
                attrs = {'lemma': lemma, 'pos': p, 'entity': ent, 'chunk': chunk}
            else:
                cat, p1, p2, word, cat2 = (need(pos + k) for k in range(1, 6))
                pos += 6
                attrs = {'pos': p1, 'pos2': p2}
            if not cat2.endswith('>)') or cat2[:-2] != cat:
                raise DecodeError(f'auto: leaf does not repeat its category: {cat!r} / {cat2!r}')
            return L(cat, word, **attrs)
        raise DecodeError(f'auto: unexpected field {t!r}')
    tree = node()
    if pos != len(toks):
        raise DecodeError('auto: trailing fields')
    return tree


def decode_auto(text, extended=False):
    out = []
    for sent, lp, body in split_records(text):
        body = [b for b in body if b != '']
        if len(body) != 1:
            raise DecodeError(f'auto: record {sent} has {len(body)} body lines')
        out.append({'sentence': sent, 'logprob': lp, 'tree': decode_auto_line(body[0], extended), 'line': body[0]})
    return out


# ---------------------------------------------------------------------- conll
def decode_conll(text):
    out = []
    for sent, lp, body in split_records(text, conll=True):
        rows = [b.split('\t') for b in body if b != '']
        frags, heads, words, cats, lemmas, poss = [], [], [], [], [], []
        for k, row in enumerate(rows, 1):
            if len(row) != 10:
                raise DecodeError(f'conll: row with {len(row)} columns')
            if row[0] != str(k):
                raise DecodeError(f'conll: token id {row[0]!r} at position {k}')
            words.append(row[1])
            lemmas.append(row[2])
            poss.append(row[3])
            heads.append(int(row[6]))
            cats.append(row[7])
            frags.append(row[9])
        line = ' '.join(frags)
        tree = decode_auto_line(line)
        out.append({'sentence': sent, 'logprob': lp, 'tree': tree, 'line': line, 'heads': heads, 'words': words,
                    'cats': cats, 'lemmas': lemmas, 'pos': poss})
    return out


# ---------------------------------------------------------------------- C&C xml
def decode_xml(text):
    root = etree.fromstring(text.encode('utf-8'))
    if root.tag != 'candc':
        raise DecodeError('xml: root is not candc')
    out = []
    for ccg in root:
        if ccg.tag != 'ccg' or len(ccg) != 1:
            raise DecodeError('xml: ccg element malformed')

        def rec(el):
            if el.tag == 'lf':
                a = dict(el.attrib)
                cat, start, span = a.pop('cat'), a.pop('start'), a.pop('span')
                word = a.pop('word', None)
                return L(cat, word, start=int(start), span=int(span), **{k: v for k, v in a.items()})
            if el.tag != 'rule':
                raise DecodeError(f'xml: unexpected element {el.tag}')
            kids = [rec(c) for c in el]
            if len(kids) == 1:
                return U(el.get('cat'), el.get('type'), kids[0])
            if len(kids) == 2:
                return B(el.get('cat'), el.get('type'), None, kids[0], kids[1])
            raise DecodeError(f'xml: rule with {len(kids)} children')
        out.append({'sentence': int(ccg.get('sentence')), 'nbest': int(ccg.get('id')), 'tree': rec(ccg[0])})
    return out


# ---------------------------------------------------------------------- jigg xml
def decode_jigg(text):
    """returns (records, integrity problems). Problems are strings describing broken invariants."""
    root = etree.fromstring(text.encode('utf-8'))
    problems = []
    out = []
    all_ids = {}
    sents = root.findall('./document/sentences/sentence')
    for si, sent in enumerate(sents):
        toks = sent.findall('./tokens/token')
        tokmap = {}
        for ti, t in enumerate(toks):
            tid = t.get('id')
            if tid in tokmap or tid in all_ids:
                problems.append(f'duplicate token id {tid}')
            tokmap[tid] = (ti, dict(t.attrib))
            all_ids[tid] = 'token'
            if t.get('start') != str(ti):
                problems.append(f'token {tid} start={t.get("start")} at position {ti}')
        for ci, ccg in enumerate(sent.findall('./ccg')):
            spans = {}
            for sp in ccg.findall('./span'):
                sid = sp.get('id')
                if sid in all_ids:
                    problems.append(f'duplicate span id {sid}')
                all_ids[sid] = 'span'
                spans[sid] = sp
            roots = [sp for sp in spans.values() if sp.get('root') == 'true']
            if len(roots) != 1:
                problems.append(f'ccg {ccg.get("id")} has {len(roots)} root spans')
            rid = ccg.get('root')
            if rid not in spans:
                problems.append(f'ccg {ccg.get("id")} root reference {rid} does not resolve')
                continue
            if roots and roots[0].get('id') != rid:
                problems.append(f'ccg {ccg.get("id")}: @root names {rid} but the span marked root is {roots[0].get("id")}')
            used = set()

            def rec(sid):
                if sid not in spans:
                    problems.append(f'dangling child reference {sid} in ccg {ccg.get("id")}')
                    raise DecodeError('jigg: dangling reference')
                if sid in used:
                    problems.append(f'span {sid} referenced twice')
                used.add(sid)
                sp = spans[sid]
                b, e = int(sp.get('begin')), int(sp.get('end'))
                cat = sp.get('category')
                if sp.get('terminal') is not None:
                    tid = sp.get('terminal')
                    if tid not in tokmap:
                        problems.append(f'dangling terminal reference {tid}')
                        raise DecodeError('jigg: dangling terminal')
                    ti, attrs = tokmap[tid]
                    if (b, e) != (ti, ti + 1):
                        problems.append(f'leaf span {sid} has offsets {b}-{e}, its token is number {ti}')
                    attrs = dict(attrs)
                    return L(cat, attrs.get('surf', attrs.get('word')), begin=b, end=e, token_index=ti,
                             **{k: v for k, v in attrs.items() if k not in ('id', 'cat', 'start')})
                kids_ids = sp.get('child', '').split(' ')
                kids = [rec(k) for k in kids_ids]
                kb = [leaves(k)[0]['attrs']['begin'] for k in kids]
                ke = [leaves(k)[-1]['attrs']['end'] for k in kids]
                if b != kb[0] or e != ke[-1]:
                    problems.append(f'span {sid} offsets {b}-{e} do not cover its children {kb[0]}-{ke[-1]}')
                if len(kids) == 2 and ke[0] != kb[1]:
                    problems.append(f'children of span {sid} are not contiguous')
                if len(kids) == 1:
                    return U(cat, sp.get('rule'), kids[0], begin=b, end=e)
                if len(kids) == 2:
                    return B(cat, sp.get('rule'), None, kids[0], kids[1], begin=b, end=e)
                problems.append(f'span {sid} has {len(kids)} children')
                raise DecodeError('jigg: arity')
            try:
                tree = rec(rid)
            except DecodeError:
                continue
            lv = leaves(tree)
            if [l['attrs']['token_index'] for l in lv] != list(range(len(toks))):
                problems.append(f'ccg {ccg.get("id")}: leaves do not tile the sentence 0..{len(toks)}')
            if set(spans) - used:
                problems.append(f'ccg {ccg.get("id")}: unreachable spans {sorted(set(spans) - used)[:3]}')
            out.append({'sentence': si + 1, 'nbest': ci + 1, 'tree': tree, 'ccg_id': ccg.get('id'), 'score': ccg.get('score'),
                        'tokens': [dict(t.attrib) for t in toks]})
    return out, problems


# ---------------------------------------------------------------------- json
def decode_json(text):
    data = json.loads(text)
    out = []
    for key, trees in data.items():
        for ni, t in enumerate(trees, 1):
            lp = t.get('log_prob')

            def rec(d):
                if 'children' in d:
                    kids = [rec(c) for c in d['children']]
                    if len(kids) == 1:
                        return U(d['cat'], d.get('type'), kids[0])
                    if len(kids) == 2:
                        return B(d['cat'], d.get('type'), None, kids[0], kids[1])
                    raise DecodeError('json: arity')
                a = {k: v for k, v in d.items() if k not in ('cat', 'log_prob')}
                return L(d['cat'], a.get('word'), **{k: v for k, v in a.items() if k != 'word'})
            out.append({'sentence': int(key), 'nbest': ni, 'tree': rec(t), 'logprob': lp})
    return out


# ---------------------------------------------------------------------- ptb
def decode_ptb_line(line):
    if not line.startswith('(ROOT ') or not line.endswith(')'):
        raise DecodeError('ptb: no ROOT wrapper')
    items = line[len('(ROOT '):-1].split(' ')
    pos = 0

    def node():
        """returns (tree, number of closers still owed to ancestors)"""
        nonlocal pos
        if pos >= len(items):
            raise DecodeError('ptb: truncated')
        it = items[pos]
        if not it.startswith('(') or len(it) < 2:
            raise DecodeError(f'ptb: opener expected, got {it!r}')
        cat = it[1:]
        pos += 1
        if pos >= len(items):
            raise DecodeError('ptb: truncated')
        nxt = items[pos]
        if not nxt.startswith('('):
            # leaf: word followed by closers
            k = len(nxt) - len(nxt.rstrip(')'))
            word = nxt[:len(nxt) - k]
            if nxt in (')' * len(nxt),):
                # a raw ')' token: cannot be told apart from closers
                raise DecodeError('ptb: word made of closing brackets is not representable')
            if k < 1 or word == '':
                raise DecodeError(f'ptb: leaf {nxt!r} is not closed')
            pos += 1
            return L(cat, word), k - 1
        kids = []
        owed = 0
        while True:
            kid, owed = node()
            kids.append(kid)
            if owed > 0:
                break
            if pos >= len(items):
                raise DecodeError('ptb: node not closed')
        if len(kids) == 1:
            return U(cat, None, kids[0]), owed - 1
        if len(kids) == 2:
            return B(cat, None, None, kids[0], kids[1]), owed - 1
        raise DecodeError(f'ptb: {len(kids)} children')
    tree, owed = node()
    if owed != 0 or pos != len(items):
        raise DecodeError('ptb: unbalanced brackets')
    return tree


def decode_ptb(text):
    out = []
    for sent, lp, body in split_records(text):
        body = [b for b in body if b != '']
        if len(body) != 1:
            raise DecodeError(f'ptb: record {sent} has {len(body)} lines')
        out.append({'sentence': sent, 'tree': decode_ptb_line(body[0]), 'line': body[0]})
    return out


# ---------------------------------------------------------------------- deriv
def decode_deriv_block(lines):
    if len(lines) < 2:
        raise DecodeError('deriv: too short')
    cats, words = lines[0].split(), lines[1].split()
    if len(cats) != len(words):
        raise DecodeError(f'deriv: {len(cats)} categories, {len(words)} words')
    bounds, col = [], 0
    for c, w in zip(cats, words):
        width = 2 + max(len(c), len(w))
        lc = (width - len(c)) // 2
        lw = (width - len(w)) // 2
        if lines[0][col + lc:col + lc + len(c)] != c or lines[1][col + lw:col + lw + len(w)] != w:
            raise DecodeError('deriv: leaf columns are not centred as the format prescribes')
        bounds.append((col, col + width))
        col += width
    starts = {b[0]: i for i, b in enumerate(bounds)}
    ends = {b[1]: i + 1 for i, b in enumerate(bounds)}
    forest = [(i, i + 1, L(cats[i], words[i])) for i in range(len(cats))]
    rest = lines[2:]
    if len(rest) % 2:
        raise DecodeError('deriv: odd number of rule/category lines')
    for k in range(0, len(rest), 2):
        rule, catline = rest[k], rest[k + 1]
        lw = len(rule) - len(rule.lstrip(' '))
        body = rule[lw:]
        nd = len(body) - len(body.lstrip('-'))
        sym = body[nd:]
        if nd == 0:
            raise DecodeError(f'deriv: rule line without dashes: {rule!r}')
        if lw not in starts or lw + nd not in ends:
            raise DecodeError(f'deriv: rule line {rule!r} does not align with leaf columns')
        lo, hi = starts[lw], ends[lw + nd]
        cat = catline.strip()
        pad = (nd - len(cat)) // 2 + lw
        if catline != ' ' * max(pad, 0) + cat and pad >= 0:
            raise DecodeError('deriv: category line is not centred under its rule line')
        inside = [f for f in forest if lo <= f[0] and f[1] <= hi]
        if not inside or inside[0][0] != lo or inside[-1][1] != hi or any(a[1] != b[0] for a, b in zip(inside, inside[1:])):
            raise DecodeError('deriv: node span is not tiled by earlier sub-derivations')
        if len(inside) == 1:
            new = U(cat, sym, inside[0][2])
        elif len(inside) == 2:
            new = B(cat, sym, None, inside[0][2], inside[1][2])
        else:
            raise DecodeError(f'deriv: node over {len(inside)} sub-derivations')
        i0 = forest.index(inside[0])
        forest[i0:i0 + len(inside)] = [(lo, hi, new)]
    if len(forest) != 1:
        raise DecodeError(f'deriv: {len(forest)} roots')
    return forest[0][2]


def decode_deriv(text):
    out = []
    for sent, lp, body in split_records(text):
        while body and body[-1] == '':
            body = body[:-1]
        out.append({'sentence': sent, 'tree': decode_deriv_block(body)})
    return out


# ---------------------------------------------------------------------- html (MathML)
def decode_html(text):
    out = []
    body = text[text.index('<body>') + 6:text.rindex('</body>')]
    pos = 0
    sent = None
    nb = 0
    header_words = {}
    tok = re.compile(r'<p>ID=(\d+): (.*?)</p>|<p>Log prob=([^<]*)</p>|(<math .*?</math>)', re.S)
    for m in tok.finditer(body):
        if m.group(1) is not None:
            sent = int(m.group(1))
            nb = 0
            header_words[sent] = _html.unescape(m.group(2))
        elif m.group(4) is not None:
            nb += 1
            try:
                el = etree.fromstring(m.group(4).encode('utf-8'))
            except etree.XMLSyntaxError as e:
                raise DecodeError(f'html: math element is not well-formed: {e}')
            out.append({'sentence': sent, 'nbest': nb, 'tree': _mathml_node(el[0]), 'header_words': header_words.get(sent)})
    return out


def _local(el):
    return el.tag.split('}')[-1]


def _mathml_cat(el):
    return ''.join((mi.text or '') for mi in el.iter() if _local(mi) == 'mi')


def _mathml_node(mrow):
    if _local(mrow) != 'mrow' or len(mrow) != 2:
        raise DecodeError('html: node mrow malformed')
    frac, lab = mrow[0], mrow[1]
    if _local(frac) != 'mfrac' or _local(lab) != 'mtext' or len(frac) != 2:
        raise DecodeError('html: mfrac malformed')
    top, style = frac[0], frac[1]
    cat = _mathml_cat(style)
    if _local(top) == 'mtext':
        return L(cat, top.text or '', lex=lab.text)
    kids = [_mathml_node(k) for k in top]
    if len(kids) == 1:
        return U(cat, lab.text, kids[0])
    if len(kids) == 2:
        return B(cat, lab.text, None, kids[0], kids[1])
    raise DecodeError(f'html: {len(kids)} children')


# ---------------------------------------------------------------------- prolog
class _PL:
    def __init__(self, s):
        self.s, self.i = s, 0

    def ws(self):
        while self.i < len(self.s) and self.s[self.i] in ' \n\t\r':
            self.i += 1

    def peek(self):
        self.ws()
        return self.s[self.i] if self.i < len(self.s) else ''

    def expect(self, c):
        self.ws()
        if not self.s.startswith(c, self.i):
            raise DecodeError(f'prolog: {c!r} expected at {self.i}: {self.s[self.i:self.i + 40]!r}')
        self.i += len(c)

    def name(self):
        self.ws()
        m = re.compile(r'[a-z_][A-Za-z0-9_]*').match(self.s, self.i)
        if not m:
            raise DecodeError(f'prolog: functor expected at {self.i}: {self.s[self.i:self.i + 40]!r}')
        self.i = m.end()
        return m.group(0)

    def quoted(self):
        self.expect("'")
        out = []
        while True:
            if self.i >= len(self.s):
                raise DecodeError('prolog: unterminated quoted atom')
            c = self.s[self.i]
            if c == '\\':
                if self.i + 1 >= len(self.s):
                    raise DecodeError('prolog: dangling escape')
                out.append(self.s[self.i + 1])
                self.i += 2
            elif c == "'":
                self.i += 1
                return ''.join(out)
            else:
                out.append(c)
                self.i += 1

    def cat(self):
        """category text up to the next top-level ',' or ')' (brackets balanced)"""
        self.ws()
        depth, j = 0, self.i
        while j < len(self.s):
            c = self.s[j]
            if c == '(':
                depth += 1
            elif c == ')':
                if depth == 0:
                    break
                depth -= 1
            elif c == ',' and depth == 0:
                break
            elif c in "'\n":
                break
            j += 1
        text = self.s[self.i:j].strip()
        if not text:
            raise DecodeError(f'prolog: category expected at {self.i}')
        self.i = j
        return text


EN_BIN = {'fa', 'ba', 'fc', 'bxc', 'gfc', 'gbx', 'rp'}


def _pl_term_en(p):
    f = p.name()
    p.expect('(')
    if f == 't':
        cat = p.cat()
        p.expect(',')
        fields = []
        for k in range(5):
            fields.append(p.quoted())
            if k < 4:
                p.expect(',')
        p.expect(')')
        word, lemma, pos, chunk, ent = fields
        return L(cat, word, lemma=lemma, pos=pos, chunk=chunk, entity=ent)
    if f in EN_BIN:
        cat = p.cat()
        p.expect(',')
        l = _pl_term_en(p)
        p.expect(',')
        r = _pl_term_en(p)
        p.expect(')')
        return B(cat, f, None, l, r)
    if f == 'conj':
        cat = p.cat()
        p.expect(',')
        arg = p.cat()
        p.expect(',')
        l = _pl_term_en(p)
        p.expect(',')
        r = _pl_term_en(p)
        p.expect(')')
        return B(cat, 'conj', None, l, r, conj_arg=arg)
    if f == 'lx':
        cat = p.cat()
        p.expect(',')
        ccat = p.cat()
        p.expect(',')
        save = p.i
        g = p.name()
        if g == 'lp':
            p.expect('(')
            rcat = p.cat()
            p.expect(',')
            l = _pl_term_en(p)
            p.expect(',')
            r = _pl_term_en(p)
            p.expect(')')
            p.expect(')')
            return B(cat, 'lp', None, l, r, lx_cat=ccat, lp_cat=rcat)
        p.i = save
        child = _pl_term_en(p)
        p.expect(')')
        return U(cat, 'lx', child, child_cat=ccat)
    raise DecodeError(f'prolog: unknown functor {f!r}')


def decode_prolog_en(text):
    out = []
    for m in re.finditer(r'^ccg\((\d+),\n', text, re.M):
        p = _PL(text)
        p.i = m.end()
        tree = _pl_term_en(p)
        p.expect(').')
        out.append({'sentence': int(m.group(1)), 'tree': tree})
    if not text.startswith(':- op(601, xfx, (/)).\n:- op(601, xfx, (\\)).\n'):
        raise DecodeError('prolog: header missing')
    return out


def _pl_term_ja(p, rules):
    f = p.name()
    p.expect('(')
    if f == 't':
        cat = p.cat()
        fields = []
        for k in range(5):
            p.expect(',')
            fields.append(p.quoted())
        p.expect(')')
        surf, base, pos, iform, itype = fields
        return L(cat, surf, base=base, pos=pos, inflectionForm=iform, inflectionType=itype)
    if f not in rules:
        raise DecodeError(f'prolog(ja): unknown rule functor {f!r}')
    cat = p.cat()
    kids = []
    while p.peek() == ',':
        p.expect(',')
        kids.append(_pl_term_ja(p, rules))
    p.expect(')')
    if len(kids) == 1:
        return U(cat, f, kids[0])
    if len(kids) == 2:
        return B(cat, f, None, kids[0], kids[1])
    raise DecodeError(f'prolog(ja): {len(kids)} children')


JA_RULES = {'sseq', 'fa', 'ba', 'fc', 'bc1', 'bc2', 'bc3', 'bc4', 'fx1', 'fx2', 'fx3', 'adnext', 'adnint', 'adv0', 'adv1', 'adv2'}


def decode_prolog_ja(text):
    out = []
    for m in re.finditer(r'^ccg\((\d+),', text, re.M):
        p = _PL(text)
        p.i = m.end()
        tree = _pl_term_ja(p, JA_RULES)
        p.expect(').')
        out.append({'sentence': int(m.group(1)), 'tree': tree})
    return out


# ---------------------------------------------------------------------- ja (Japanese CCGbank style)
def decode_ja_line(line):
    items = line.split(' ')
    pos = 0

    def node():
        nonlocal pos
        if pos + 1 >= len(items):
            raise DecodeError('ja: truncated')
        it = items[pos]
        if not it.startswith('{'):
            raise DecodeError(f'ja: opener expected, got {it!r}')
        if not items[pos + 1].endswith('}'):
            sym, cat = it[1:], items[pos + 1]
            pos += 2
            kids = []
            while True:
                kid, closers = node()
                kids.append(kid)
                if closers > 0:
                    break
            if len(kids) == 1:
                return U(cat, sym, kids[0]), closers - 1
            if len(kids) == 2:
                return B(cat, sym, None, kids[0], kids[1]), closers - 1
            raise DecodeError(f'ja: {len(kids)} children')
        cat, field = it[1:], items[pos + 1]
        pos += 2
        k = len(field) - len(field.rstrip('}'))
        if k < 1:
            raise DecodeError(f'ja: leaf not closed: {field!r}')
        parts = field[:len(field) - k].split('/')
        if len(parts) != 4:
            raise DecodeError(f'ja: leaf has {len(parts)} fields: {field!r}')
        return L(cat, parts[0], word2=parts[1], pos=parts[2], inflection=parts[3]), k - 1
    tree, owed = node()
    if owed != 0 or pos != len(items):
        raise DecodeError('ja: unbalanced braces')
    return tree


def decode_ja(text):
    out = []
    for sent, lp, body in split_records(text):
        body = [b for b in body if b != '']
        if len(body) != 1:
            raise DecodeError(f'ja: record {sent} has {len(body)} lines')
        out.append({'sentence': sent, 'tree': decode_ja_line(body[0]), 'line': body[0]})
    return out

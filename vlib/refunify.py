"""Reference matcher for C06, written from the property statement (no code shared with depccg.unification)."""
from vlib import refcat


def is_var_feat(f):
    if f is None:
        return False
    if f[0] == 'U':
        return f[1] == 'X'
    return any(v.startswith('X') for _, v in f[1])


def compatible(f, g):
    """features at corresponding positions: equal, or one side absent / 'nb' / a variable"""
    if f == g:
        return True
    fu = f is None or f[0] == 'U'
    gu = g is None or g[0] == 'U'
    if fu and gu:
        return any(h is None or h[1] in ('nb', 'X') for h in (f, g))
    if fu != gu:
        return None          # mixed feature systems under one base: outside the stated domain
    (_, a), (_, b) = f, g
    if [k for k, _ in a] != [k for k, _ in b]:
        return False

    def sub(p, q):
        return all(v == w or v.startswith('X') for (_, v), (_, w) in zip(p, q))
    return sub(a, b) or sub(b, a)


def slash_ok(p, t):
    return p == t or '|' in (p, t)


def shape(pattern, value, out):
    """bind pattern variables; returns False if the shape does not fit"""
    if pattern[0] == 'A':
        out.setdefault(pattern[1], []).append(value)
        return True
    if value[0] != 'F' or not slash_ok(pattern[2], value[2]):
        return False
    return shape(pattern[1], value[1], out) and shape(pattern[3], value[3], out)


def ref_match(px, py, x, y):
    """returns (verdict, bx, by): verdict True/False, or None when outside the stated domain"""
    bx, by = {}, {}
    if not shape(px, x, bx):
        return False, bx, by
    if not shape(py, y, by):
        return False, bx, by
    if any(len(v) > 1 for v in bx.values()) or any(len(v) > 1 for v in by.values()):
        # a variable repeated inside one pattern: every occurrence (either side) must be identical up to features;
        # on how their features interact the statement is silent, so only the necessary condition is judged
        for var in set(bx) | set(by):
            occ = bx.get(var, []) + by.get(var, [])
            if any(refcat.blind(o) != refcat.blind(occ[0]) for o in occ[1:]):
                return False, bx, by
        return None, bx, by
    for var in bx:
        if var in by:
            a, b = bx[var][0], by[var][0]
            if refcat.blind(a) != refcat.blind(b):
                return False, bx, by
    verdict = True
    for var in bx:
        if var in by:
            for p, q in zip(refcat.atoms(bx[var][0]), refcat.atoms(by[var][0])):
                c = compatible(p[2], q[2])
                if c is None:
                    return None, bx, by
                if not c:
                    verdict = False
    return verdict, bx, by


def binding_ok(var, got, bx, by, x, y):
    """got: reference value of uni[var]. Must be an occurrence of var with at most variable features
    replaced by features from the inputs (or none)."""
    occ = [v[0] for v in (bx.get(var), by.get(var)) if v]
    if not occ:
        return False, 'no occurrence'
    if refcat.blind(got) != refcat.blind(occ[0]):
        return False, 'structure differs from the matched sub-category'
    input_feats = {a[2] for a in refcat.atoms(x) + refcat.atoms(y)} | {None}
    for i, g in enumerate(refcat.atoms(got)):
        here = [refcat.atoms(o)[i][2] for o in occ]
        if g[2] in here:
            continue
        if any(is_var_feat(h) for h in here) and g[2] in input_feats:
            continue
        return False, f'atom {i} carries {refcat.feat_print(g[2])!r}, occurrences carry {[refcat.feat_print(h) for h in here]}'
    return True, ''


def pattern_vars(p):
    return [a[1] for a in refcat.atoms(p)]

"""Runs the repository's own tests inside a shard with the contracts of the calling check switched on: a contract that
fires there is either too strict or a defect the tests do not assert (triaged like any other alarm)."""
import os

from vlib import env


def run_repo_tests(R, files, install):
    import pytest
    env.install()
    install()
    cwd = os.getcwd()
    os.chdir(env.REPO)
    try:
        class Plugin:
            def __init__(self):
                self.passed = self.failed = 0

            def pytest_runtest_logreport(self, report):
                if report.when == 'call':
                    if report.passed:
                        self.passed += 1
                    elif report.failed:
                        self.failed += 1
        pl = Plugin()
        rc = pytest.main(['-q', '-p', 'no:cacheprovider', '-x', '--no-header', '-W', 'ignore'] + files, plugins=[pl])
        R.count('repo-tests:passed-with-contracts-on', pl.passed)
        R.case(('repo-tests', tuple(files)), True)
        if pl.failed or pl.passed == 0:
            R.inconclusive_because(f'repository tests under contracts: {pl.passed} passed, {pl.failed} failed (rc={rc})')
    finally:
        os.chdir(cwd)

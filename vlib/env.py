"""Execution environment: makes the real /repo code importable in the sealed sandbox.

* REPO is /repo unless VERIF_REPO points at a scratch worktree (used only for sensitivity runs).
* A meta-path finder, inserted first, answers for absent third-party packages with inert
  stand-ins and for the three repository modules that only load neural networks.
* allennlp.common.params.Params is a concrete stub backed by a jsonnet-subset loader.
Everything else under depccg.* is the file in REPO.
"""
import importlib.abc
import importlib.machinery
import json
import os
import sys
import types

VERIF = os.path.dirname(os.path.dirname(os.path.abspath(__file__)))
REPO = os.environ.get('VERIF_REPO', '/repo')
DEPS = os.path.join(VERIF, '.deps')

_STUB_ROOTS = (
    'chainer', 'allennlp', 'allennlp_models', 'nltk', 'yaml', 'torch', 'overrides', 'spacy',
    'janome', 'google_drive_downloader', 'cupy', 'transformers',
)
_STUB_REPO_MODULES = (
    'depccg.chainer.supertagger', 'depccg.allennlp.supertagger', 'depccg.morpha',
    'depccg._parsing_stub_marker',
)


class _DummyMeta(type):
    def __getattr__(cls, name):
        if name.startswith('__') and name.endswith('__'):
            raise AttributeError(name)
        return _make_dummy(f'{cls.__name__}.{name}')

    def __iter__(cls):
        return iter(())


def _make_dummy(name):
    class _Dummy(metaclass=_DummyMeta):
        _verif_stub = True

        def __init__(self, *a, **k):
            pass

        def __new__(cls, *a, **k):
            # transparent decorator: @dummy on a function/class returns it unchanged
            if cls._verif_is_base and len(a) == 1 and not k and (
                    isinstance(a[0], (types.FunctionType, type))):
                return a[0]
            return object.__new__(cls)

        def __call__(self, *a, **k):
            if len(a) == 1 and not k and isinstance(a[0], (types.FunctionType, type)):
                return a[0]
            return self

        def __getattr__(self, item):
            if item.startswith('__') and item.endswith('__'):
                raise AttributeError(item)
            return _make_dummy(item)

        def __init_subclass__(cls, **k):
            cls._verif_is_base = False

    _Dummy._verif_is_base = True
    _Dummy.__name__ = name.split('.')[-1]
    _Dummy.__qualname__ = name
    return _Dummy


class _StubModule(types.ModuleType):
    __all__ = []
    __path__ = []

    def __getattr__(self, name):
        if name.startswith('__') and name.endswith('__'):
            raise AttributeError(name)
        value = _make_dummy(f'{self.__name__}.{name}')
        setattr(self, name, value)
        return value


# ---------------------------------------------------------------- jsonnet subset
class JsonnetError(Exception):
    pass


def load_jsonnet(path):
    """Evaluate the jsonnet subset the shipped model files use: objects, arrays, strings,
    numbers, booleans, null, comments, trailing commas, `local x = <expr>;`, `import 'f'`,
    `(expr).field`, identifiers bound by local. An empty file evaluates to {}."""
    text = open(path, encoding='utf-8').read()
    return _Jsonnet(text, os.path.dirname(os.path.abspath(path))).top()


class _EmptyImport(dict):
    """An emptied model file (the image blanks tokens.en.jsonnet): any field is an empty list."""

    def __getitem__(self, key):
        return []


class _Jsonnet:
    def __init__(self, text, base):
        self.s, self.i, self.base, self.env = text, 0, base, {}

    def ws(self):
        s = self.s
        while self.i < len(s):
            c = s[self.i]
            if c in ' \t\r\n':
                self.i += 1
            elif s.startswith('//', self.i) or c == '#':
                j = s.find('\n', self.i)
                self.i = len(s) if j < 0 else j
            elif s.startswith('/*', self.i):
                j = s.find('*/', self.i)
                if j < 0:
                    raise JsonnetError('unterminated comment')
                self.i = j + 2
            else:
                break

    def top(self):
        self.ws()
        if self.i >= len(self.s):
            return _EmptyImport()
        while self.s.startswith('local', self.i) and not self._identchar(self.i + 5):
            self.i += 5
            self.ws()
            name = self.ident()
            self.ws()
            self.expect('=')
            self.env[name] = self.expr()
            self.ws()
            self.expect(';')
            self.ws()
        value = self.expr()
        self.ws()
        if self.i != len(self.s):
            raise JsonnetError(f'trailing text at {self.i}')
        return value

    def _identchar(self, i):
        return i < len(self.s) and (self.s[i].isalnum() or self.s[i] == '_')

    def ident(self):
        j = self.i
        while self._identchar(j):
            j += 1
        if j == self.i:
            raise JsonnetError(f'identifier expected at {self.i}')
        name, self.i = self.s[self.i:j], j
        return name

    def expect(self, c):
        self.ws()
        if not self.s.startswith(c, self.i):
            raise JsonnetError(f'{c!r} expected at {self.i}: {self.s[self.i:self.i+30]!r}')
        self.i += len(c)

    def expr(self):
        self.ws()
        value = self.primary()
        while True:
            self.ws()
            if self.s.startswith('.', self.i) and self._identchar(self.i + 1):
                self.i += 1
                value = value[self.ident()]
            elif self.s.startswith('[', self.i) and False:
                pass
            elif self.s.startswith('+', self.i):
                self.i += 1
                rhs = self.expr()
                if isinstance(value, dict):
                    value = {**value, **rhs}
                else:
                    value = value + rhs
            else:
                return value

    def string(self):
        q = self.s[self.i]
        if q == '"':
            # JSON string
            j = self.i + 1
            while self.s[j] != '"':
                j += 2 if self.s[j] == '\\' else 1
            raw = self.s[self.i:j + 1]
            self.i = j + 1
            return json.loads(raw)
        j = self.i + 1
        out = []
        while self.s[j] != "'":
            if self.s[j] == '\\':
                nxt = self.s[j + 1]
                out.append({'n': '\n', 't': '\t', '\\': '\\', "'": "'", '"': '"', '/': '/'}.get(nxt, nxt))
                j += 2
            else:
                out.append(self.s[j])
                j += 1
        self.i = j + 1
        return ''.join(out)

    def primary(self):
        self.ws()
        s = self.s
        c = s[self.i] if self.i < len(s) else ''
        if c == '{':
            self.i += 1
            obj = {}
            while True:
                self.ws()
                if s.startswith('}', self.i):
                    self.i += 1
                    return obj
                if s[self.i] in '"\'':
                    key = self.string()
                elif s[self.i] == '[':
                    self.i += 1
                    key = self.expr()
                    self.expect(']')
                else:
                    key = self.ident()
                self.ws()
                self.expect(':')
                obj[key] = self.expr()
                self.ws()
                if s.startswith(',', self.i):
                    self.i += 1
        if c == '[':
            self.i += 1
            arr = []
            while True:
                self.ws()
                if s.startswith(']', self.i):
                    self.i += 1
                    return arr
                arr.append(self.expr())
                self.ws()
                if s.startswith(',', self.i):
                    self.i += 1
        if c == '(':
            self.i += 1
            v = self.expr()
            self.expect(')')
            return v
        if c in '"\'':
            return self.string()
        if c.isdigit() or c == '-':
            j = self.i + 1
            while j < len(s) and (s[j].isdigit() or s[j] in '.eE+-'):
                j += 1
            txt, self.i = s[self.i:j], j
            return json.loads(txt)
        name = self.ident()
        if name == 'import':
            self.ws()
            rel = self.string()
            return load_jsonnet(os.path.join(self.base, rel))
        if name in ('true', 'false', 'null'):
            return {'true': True, 'false': False, 'null': None}[name]
        if name in self.env:
            return self.env[name]
        raise JsonnetError(f'unbound identifier {name!r}')


class Params:
    """Stand-in for allennlp.common.params.Params (only what read_params uses)."""

    def __init__(self, params):
        self.params = params

    @classmethod
    def from_file(cls, path, *a, **k):
        return cls(load_jsonnet(str(path)))

    def pop(self, key, *default):
        if key not in self.params:
            if default:
                return default[0]
            raise KeyError(f'key "{key}" is required')
        value = self.params.pop(key)
        return Params(value) if isinstance(value, dict) else value

    def items(self):
        return self.params.items()

    def __iter__(self):
        return iter(self.params)

    def as_dict(self, *a, **k):
        return self.params


class _Finder(importlib.abc.MetaPathFinder, importlib.abc.Loader):
    def find_spec(self, fullname, path=None, target=None):
        root = fullname.split('.')[0]
        if root in _STUB_ROOTS or fullname in _STUB_REPO_MODULES or fullname in ('simplejson', 'tqdm'):
            return importlib.machinery.ModuleSpec(fullname, self, is_package=True)
        return None

    def create_module(self, spec):
        name = spec.name
        if name == 'simplejson':
            mod = types.ModuleType(name)
            mod.__dict__.update({k: v for k, v in json.__dict__.items() if not k.startswith('__')})
            return mod
        if name == 'tqdm':
            mod = types.ModuleType(name)
            mod.tqdm = lambda it=None, *a, **k: it
            return mod
        mod = _StubModule(name)
        if name == 'allennlp.common.params':
            mod.Params = Params
        return mod

    def exec_module(self, module):
        pass


_installed = False


def stub_native_parsing():
    """For checks that never run the search: an inert depccg._parsing so that depccg.parsing imports."""
    if 'depccg._parsing' not in sys.modules:
        sys.modules['depccg._parsing'] = _StubModule('depccg._parsing')


def install(lang=None):
    """Idempotent. Puts REPO first on sys.path, the stub finder first on sys.meta_path."""
    global _installed
    if not _installed:
        if os.path.isdir(DEPS) and DEPS not in sys.path:
            sys.path.insert(0, DEPS)
        sys.path[:] = [p for p in sys.path if os.path.abspath(p or '.') != REPO]
        sys.path.insert(0, REPO)
        sys.meta_path.insert(0, _Finder())
        _installed = True
    import depccg
    where = os.path.dirname(os.path.abspath(depccg.__file__))
    if os.path.dirname(where) != os.path.abspath(REPO):
        raise RuntimeError(f'depccg imported from {where}, not from {REPO}')
    if lang is not None:
        from depccg.lang import set_global_language_to
        set_global_language_to(lang)


def model_path(name):
    return os.path.join(REPO, 'depccg', 'models', name)

"""Runtime contracts attached from outside to the real pure-Python functions (icontract).

Conditions *record and return True*: a violated contract is logged on the active Recorder with
its witness and never aborts the observed computation. Every contract counts its evaluations.
"""
import icontract

from vlib import refcat

_R = None            # active Recorder
_installed = set()


class ContractBroken(Exception):
    pass


def bind(recorder):
    global _R
    _R = recorder


def _viol(key, what, witness):
    if _R is not None:
        _R.violation(key, what, witness)


def _count(name):
    if _R is not None:
        _R.count(name)


# ------------------------------------------------------------------ depccg.cat
def _parse_post(text, result):
    _count('contract:Category.parse')
    try:
        if refcat.has_two_slashes_at_one_level(text):
            _viol('cat:ambiguous-accepted', f'text with two unbracketed slashes at one level was read as {result!s}',
                  {'text': text, 'got': str(result)})
            return True
        try:
            ref = refcat.ref_parse(text)
        except refcat.RefSyntaxError:
            _count('contract:Category.parse:out-of-domain')
            return True
        got = refcat.to_ref(result)
        if got != ref:
            _viol('cat:roundtrip', f'parse({text!r}) gave {refcat.ref_print(got)}, reference reads {refcat.ref_print(ref)}',
                  {'text': text, 'got': refcat.ref_print(got), 'expected': refcat.ref_print(ref)})
    except Exception as e:  # a malformed result object
        _viol('cat:roundtrip', f'parse({text!r}) returned an object that cannot be inspected: {e!r}', {'text': text})
    return True


def _str_post(self, result):
    _count('contract:Category.__str__')
    try:
        want = refcat.ref_print(refcat.to_ref(self))
    except Exception as e:
        _viol('cat:roundtrip', f'category object cannot be inspected: {e!r}', {})
        return True
    if result != want:
        _viol('cat:roundtrip', f'str() gave {result!r}, canonical text is {want!r}', {'got': result, 'expected': want})
    return True


def install_cat_contracts(with_str=False):
    from depccg import cat as C
    if 'parse' not in _installed:
        orig = C.Category.__dict__['parse'].__func__

        def parse(cls, text):
            return orig(cls, text)
        parse.__doc__ = orig.__doc__
        checked = icontract.ensure(_parse_post, error=ContractBroken)(parse)
        C.Category.parse = classmethod(checked)
        _installed.add('parse')
    if with_str and 'str' not in _installed:
        for klass in (C.Atom, C.Functor):
            orig_str = klass.__dict__['__str__']
            klass.__str__ = icontract.ensure(_str_post, error=ContractBroken)(orig_str)
        _installed.add('str')


# ------------------------------------------------------------------ value laws (C13)
def _eq_post(self, other, result):
    _count('contract:__eq__')
    try:
        a = refcat.to_ref(self)
        if isinstance(other, str):
            want = other == refcat.ref_print(a)
            key = 'cat:string-eq'
        elif hasattr(other, 'is_functor'):
            want = a == refcat.to_ref(other)
            key = 'cat:eq-hash'
        else:
            want = False
            key = 'cat:eq-hash'
        if bool(result) != want:
            _viol(key, f'({refcat.ref_print(a)}) == ({other!s}) gave {result!r}, reference says {want}',
                  {'a': refcat.ref_print(a), 'b': str(other), 'b_is_str': isinstance(other, str)})
    except Exception as e:
        _viol('cat:eq-hash', f'__eq__ contract could not inspect operands: {e!r}', {})
    return True


def _xor_post(self, other, result):
    _count('contract:__xor__')
    try:
        a = refcat.to_ref(self)
        want = hasattr(other, 'is_functor') and refcat.blind(a) == refcat.blind(refcat.to_ref(other))
        if bool(result) != want:
            _viol('cat:xor', f'({refcat.ref_print(a)}) ^ ({other!s}) gave {result!r}, reference says {want}',
                  {'a': refcat.ref_print(a), 'b': str(other)})
    except Exception as e:
        _viol('cat:xor', f'__xor__ contract could not inspect operands: {e!r}', {})
    return True


def _clear_post(_ARGS, result):
    _count('contract:clear_features')
    self, args = _ARGS[0], tuple(_ARGS[1:])
    try:
        a = refcat.to_ref(self)
        names = [x for x in args if isinstance(x, str)]
        if len(names) != len(args) or any(('=' in n and ',' in n) for n in names):
            return True   # outside the stated domain (named unary features)
        want = refcat.erase(a, set(names))
        got = refcat.to_ref(result)
        if got != want:
            _viol('cat:clear-features', f'({refcat.ref_print(a)}).clear_features{tuple(names)} gave {refcat.ref_print(got)}, '
                  f'reference says {refcat.ref_print(want)}', {'a': refcat.ref_print(a), 'names': names})
    except Exception as e:
        _viol('cat:clear-features', f'clear_features contract could not inspect operands: {e!r}', {})
    return True


def install_value_contracts():
    from depccg import cat as C
    if 'values' in _installed:
        return
    for klass in (C.Atom, C.Functor):
        klass.__eq__ = icontract.ensure(_eq_post, error=ContractBroken)(klass.__dict__['__eq__'])
        klass.__xor__ = icontract.ensure(_xor_post, error=ContractBroken)(klass.__dict__['__xor__'])
        klass.clear_features = icontract.ensure(_clear_post, error=ContractBroken)(klass.__dict__['clear_features'])
    _installed.add('values')

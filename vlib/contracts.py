"""Runtime contracts attached from outside to the real pure-Python functions (icontract).

Conditions *record and return True*: a violated contract is logged on the active Recorder with
its witness and never aborts the observed computation. Every contract counts its evaluations.
"""
import icontract

from vlib import refcat

_R = None            # active Recorder
_installed = set()


class ContractBroken(Exception):
    pass


def bind(recorder):
    global _R
    _R = recorder


def _viol(key, what, witness):
    if _R is not None:
        _R.violation(key, what, witness)


def _count(name):
    if _R is not None:
        _R.count(name)


# ------------------------------------------------------------------ depccg.cat
def _parse_post(text, result):
    _count('contract:Category.parse')
    try:
        if refcat.has_two_slashes_at_one_level(text):
            _viol('cat:ambiguous-accepted', f'text with two unbracketed slashes at one level was read as {result!s}',
                  {'text': text, 'got': str(result)})
            return True
        try:
            ref = refcat.ref_parse(text)
        except refcat.RefSyntaxError:
            _count('contract:Category.parse:out-of-domain')
            return True
        got = refcat.to_ref(result)
        if got != ref:
            _viol('cat:roundtrip', f'parse({text!r}) gave {refcat.ref_print(got)}, reference reads {refcat.ref_print(ref)}',
                  {'text': text, 'got': refcat.ref_print(got), 'expected': refcat.ref_print(ref)})
    except Exception as e:  # a malformed result object
        _viol('cat:roundtrip', f'parse({text!r}) returned an object that cannot be inspected: {e!r}', {'text': text})
    return True


def _str_post(self, result):
    _count('contract:Category.__str__')
    try:
        want = refcat.ref_print(refcat.to_ref(self))
    except Exception as e:
        _viol('cat:roundtrip', f'category object cannot be inspected: {e!r}', {})
        return True
    if result != want:
        _viol('cat:roundtrip', f'str() gave {result!r}, canonical text is {want!r}', {'got': result, 'expected': want})
    return True


def install_cat_contracts(with_str=False):
    from depccg import cat as C
    if 'parse' not in _installed:
        orig = C.Category.__dict__['parse'].__func__

        def parse(cls, text):
            return orig(cls, text)
        parse.__doc__ = orig.__doc__
        checked = icontract.ensure(_parse_post, error=ContractBroken)(parse)
        C.Category.parse = classmethod(checked)
        _installed.add('parse')
    if with_str and 'str' not in _installed:
        for klass in (C.Atom, C.Functor):
            orig_str = klass.__dict__['__str__']
            klass.__str__ = icontract.ensure(_str_post, error=ContractBroken)(orig_str)
        _installed.add('str')


# ------------------------------------------------------------------ value laws (C13)
def _eq_post(self, other, result):
    _count('contract:__eq__')
    try:
        a = refcat.to_ref(self)
        if isinstance(other, str):
            want = other == refcat.ref_print(a)
            key = 'cat:string-eq'
        elif hasattr(other, 'is_functor'):
            want = a == refcat.to_ref(other)
            key = 'cat:eq-hash'
        else:
            want = False
            key = 'cat:eq-hash'
        if bool(result) != want:
            _viol(key, f'({refcat.ref_print(a)}) == ({other!s}) gave {result!r}, reference says {want}',
                  {'a': refcat.ref_print(a), 'b': str(other), 'b_is_str': isinstance(other, str)})
    except Exception as e:
        _viol('cat:eq-hash', f'__eq__ contract could not inspect operands: {e!r}', {})
    return True


def _xor_post(self, other, result):
    _count('contract:__xor__')
    try:
        a = refcat.to_ref(self)
        want = hasattr(other, 'is_functor') and refcat.blind(a) == refcat.blind(refcat.to_ref(other))
        if bool(result) != want:
            _viol('cat:xor', f'({refcat.ref_print(a)}) ^ ({other!s}) gave {result!r}, reference says {want}',
                  {'a': refcat.ref_print(a), 'b': str(other)})
    except Exception as e:
        _viol('cat:xor', f'__xor__ contract could not inspect operands: {e!r}', {})
    return True


def _clear_post(_ARGS, result):
    _count('contract:clear_features')
    self, args = _ARGS[0], tuple(_ARGS[1:])
    try:
        a = refcat.to_ref(self)
        names = [x for x in args if isinstance(x, str)]
        if len(names) != len(args):
            return True   # outside the stated domain (features are named by text)
        want = refcat.erase(a, set(names))
        got = refcat.to_ref(result)
        if got == want and (str(result) != refcat.ref_print(want) or not (result == refcat.ref_print(want))):
            _viol('cat:clear-features', f'({refcat.ref_print(a)}).clear_features{tuple(names)} has the right structure but prints as '
                  f'{str(result)!r} / does not equal its own canonical text {refcat.ref_print(want)!r}', {'a': refcat.ref_print(a), 'names': names})
        if got != want:
            _viol('cat:clear-features', f'({refcat.ref_print(a)}).clear_features{tuple(names)} gave {refcat.ref_print(got)}, '
                  f'reference says {refcat.ref_print(want)}', {'a': refcat.ref_print(a), 'names': names})
    except Exception as e:
        _viol('cat:clear-features', f'clear_features contract could not inspect operands: {e!r}', {})
    return True


def install_value_contracts():
    from depccg import cat as C
    if 'values' in _installed:
        return
    for klass in (C.Atom, C.Functor):
        klass.__eq__ = icontract.ensure(_eq_post, error=ContractBroken)(klass.__dict__['__eq__'])
        klass.__xor__ = icontract.ensure(_xor_post, error=ContractBroken)(klass.__dict__['__xor__'])
        klass.clear_features = icontract.ensure(_clear_post, error=ContractBroken)(klass.__dict__['clear_features'])
    _installed.add('values')


# ------------------------------------------------------------------ depccg.unification (C06)
from vlib import refunify  # noqa: E402


def _uni_call_post(self, x, y, result):
    _count('contract:Unification.__call__')
    try:
        px, py = refcat.to_ref(self.meta_x), refcat.to_ref(self.meta_y)
        rx, ry = refcat.to_ref(x), refcat.to_ref(y)
        want, bx, by = refunify.ref_match(px, py, rx, ry)
        if want is None:
            _count('contract:Unification.__call__:out-of-domain')
            return True
        self._verif = (bx, by, rx, ry)
        if bool(result) != want:
            _viol('unify:success-mismatch',
                  f'patterns ({refcat.ref_print(px)}, {refcat.ref_print(py)}) on ({refcat.ref_print(rx)}, {refcat.ref_print(ry)}): '
                  f'matcher says {bool(result)}, reference says {want}',
                  {'px': refcat.ref_print(px), 'py': refcat.ref_print(py), 'x': refcat.ref_print(rx), 'y': refcat.ref_print(ry)})
        else:
            _count('contract:Unification.__call__:success' if want else 'contract:Unification.__call__:failure')
    except Exception as e:
        _viol('unify:success-mismatch', f'contract could not inspect the matcher: {e!r}', {})
    return True


def _uni_getitem_post(self, key, result):
    _count('contract:Unification.__getitem__')
    try:
        st = getattr(self, '_verif', None)
        if st is None:
            return True
        bx, by, rx, ry = st
        got = refcat.to_ref(result)
        ok, why = refunify.binding_ok(key, got, bx, by, rx, ry)
        if not ok:
            _viol('unify:binding', f'binding of {key!r} is {refcat.ref_print(got)}: {why}',
                  {'px': str(self.meta_x), 'py': str(self.meta_y), 'x': refcat.ref_print(rx), 'y': refcat.ref_print(ry), 'var': key})
    except Exception as e:
        _viol('unify:binding', f'contract could not inspect the binding: {e!r}', {})
    return True


def install_unification_contracts():
    from depccg import unification as U
    if 'unify' in _installed:
        return
    U.Unification.__call__ = icontract.ensure(_uni_call_post, error=ContractBroken)(U.Unification.__dict__['__call__'])
    U.Unification.__getitem__ = icontract.ensure(_uni_getitem_post, error=ContractBroken)(U.Unification.__dict__['__getitem__'])
    _installed.add('unify')


# ------------------------------------------------------------------ English grammar (C03)
from vlib import schemas_en  # noqa: E402


def _res_tuple(r):
    return (refcat.to_ref(r.cat), r.op_string, r.op_symbol, r.head_is_left)


def _en_binary_post(x, y, seen_rules, result):
    _count('contract:en.apply_binary_rules')
    try:
        ex, ey = refcat.erase(refcat.to_ref(x), {'nb'}), refcat.erase(refcat.to_ref(y), {'nb'})
        wit = {'x': refcat.ref_print(refcat.to_ref(x)), 'y': refcat.ref_print(refcat.to_ref(y))}
        got = []
        for r in result:
            t = _res_tuple(r)
            got.append(t)
            ok, why = schemas_en.justified(ex, ey, t)
            if ok is None:
                _count('contract:en.apply_binary_rules:out-of-domain')
                continue
            _count('contract:en:result-justified')
            if _R is not None:
                _R.hist('en_labels_seen', f'{t[1]} {t[2]}')
            if not ok:
                _viol(f'en:{t[1]}:unjustified', f'{wit["x"]} + {wit["y"]} -> {refcat.ref_print(t[0])} [{t[1]} {t[2]} head_left={t[3]}]: {why}',
                      dict(wit, result=refcat.ref_print(t[0]), label=t[1], symbol=t[2], head_is_left=t[3]))
        if seen_rules is None:
            for lab, sym, cat in schemas_en.converse(ex, ey):
                _count('contract:en:converse-expected')
                if (cat, lab, sym, True) not in got:
                    _viol(f'en:{lab}:missing', f'{wit["x"]} + {wit["y"]}: premises of {lab} hold with identical matched parts but '
                          f'{refcat.ref_print(cat)} [{lab} {sym}] is not among the results {[(refcat.ref_print(g[0]), g[1]) for g in got]}',
                          dict(wit, expected=refcat.ref_print(cat), label=lab))
    except Exception as e:
        _viol('en:contract-error', f'contract could not inspect the call: {e!r}', {})
    return True


def _patch_registries(lang, new):
    import sys
    for modname, attr in (('depccg.tree', 'BINARY_RULES'), ('depccg.tools.reader', 'BINARY_RULES')):
        m = sys.modules.get(modname)
        if m is not None:
            getattr(m, attr)[lang] = new
    m = sys.modules.get('depccg.instance_models')
    if m is not None:
        g = m.GRAMMARS[lang]
        m.GRAMMARS[lang] = type(g)(new, g.apply_unary_rules)


def install_en_contracts():
    if 'en' in _installed:
        return
    from depccg.grammar import en
    orig = en.apply_binary_rules

    def apply_binary_rules(x, y, seen_rules=None):
        return orig(x, y, seen_rules)
    checked = icontract.ensure(_en_binary_post, error=ContractBroken)(apply_binary_rules)
    en.apply_binary_rules = checked
    _patch_registries('en', checked)
    _installed.add('en')


# ------------------------------------------------------------------ Japanese grammar (C04)
from vlib import schemas_ja  # noqa: E402


def _ja_binary_post(x, y, seen_rules, result):
    _count('contract:ja.apply_binary_rules')
    try:
        rx, ry = refcat.to_ref(x), refcat.to_ref(y)
        wit = {'x': refcat.ref_print(rx), 'y': refcat.ref_print(ry)}
        for r in result:
            t = _res_tuple(r)
            ok, why = schemas_ja.justified(rx, ry, t)
            if ok is None:
                _count('contract:ja.apply_binary_rules:out-of-domain')
                continue
            _count('contract:ja:result-justified')
            if _R is not None:
                _R.hist('ja_symbols_seen', t[2])
            if not ok:
                _viol(f'ja:{t[2]}:unjustified', f'{wit["x"]} + {wit["y"]} -> {refcat.ref_print(t[0])} [{t[1]} {t[2]} head_left={t[3]}]: {why}',
                      dict(wit, result=refcat.ref_print(t[0]), label=t[1], symbol=t[2], head_is_left=t[3]))
    except Exception as e:
        _viol('ja:contract-error', f'contract could not inspect the call: {e!r}', {})
    return True


def _ja_unary_post(x, unary_rules, result):
    _count('contract:ja.apply_unary_rules')
    try:
        rx = refcat.to_ref(x)
        want = schemas_ja.unary_label(rx)
        for r in result:
            if want is None:
                _count('contract:ja.apply_unary_rules:out-of-domain')
                # shapes the statement does not single out: the label must still be one of the labels it names
                fam = schemas_ja.unary_family(rx)
                if fam is None and schemas_ja.unary_plain(rx) and r.op_string in schemas_ja.NAMED_UNARY:
                    _viol('ja:unary-label', f'type-changing step on {refcat.ref_print(rx)}, which is neither adnominal nor adverbial, '
                          f'is labelled {r.op_string!r}', {'x': refcat.ref_print(rx), 'got': r.op_string})
                if fam is not None and (r.op_string not in fam or r.op_symbol != r.op_string):
                    _viol('ja:unary-label', f'type-changing step on {refcat.ref_print(rx)} is labelled {r.op_string!r}/{r.op_symbol!r}; '
                          f'the labels for such inputs are {sorted(fam)}', {'x': refcat.ref_print(rx), 'got': r.op_string})
                continue
            _count('contract:ja:unary-label-judged')
            if _R is not None:
                _R.hist('ja_unary_labels_seen', r.op_string)
            if r.op_string != want or r.op_symbol != want:
                _viol('ja:unary-label', f'type-changing step on {refcat.ref_print(rx)} is labelled {r.op_string!r}/{r.op_symbol!r}, '
                      f'its shape implies {want!r}', {'x': refcat.ref_print(rx), 'got': r.op_string, 'expected': want})
    except Exception as e:
        _viol('ja:contract-error', f'contract could not inspect the call: {e!r}', {})
    return True


def install_ja_contracts():
    if 'ja' in _installed:
        return
    from depccg.grammar import ja
    orig = ja.apply_binary_rules
    orig_u = ja.apply_unary_rules

    def apply_binary_rules(x, y, seen_rules=None):
        return orig(x, y, seen_rules)

    def apply_unary_rules(x, unary_rules):
        return orig_u(x, unary_rules)
    checked = icontract.ensure(_ja_binary_post, error=ContractBroken)(apply_binary_rules)
    checked_u = icontract.ensure(_ja_unary_post, error=ContractBroken)(apply_unary_rules)
    ja.apply_binary_rules = checked
    ja.apply_unary_rules = checked_u
    _patch_registries('ja', checked)
    import sys
    m = sys.modules.get('depccg.instance_models')
    if m is not None:
        m.GRAMMARS['ja'] = type(m.GRAMMARS['ja'])(checked, checked_u)
    _installed.add('ja')

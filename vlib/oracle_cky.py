"""Reference oracle for the search properties: exhaustive CKY over the admitted supertags.
Independent of parsing.h / parsing.pyx; encodes only what the property statements say.

Derivations are nested tuples:
  ('L', i, cat)                               leaf for word i
  ('U', cat, label, symbol, child)            unary step
  ('B', cat, label, symbol, head_left, l, r)  binary step
"""
import math

import numpy as np


class Budget(Exception):
    pass


def admitted_tags(tag_row, pruning_size, use_beta, beta):
    """(must, may): tag indices the beam certainly admits / may admit (ties and rounding at the boundary stay neutral)."""
    scores = [float(s) for s in tag_row]
    order = sorted(range(len(scores)), key=lambda t: -scores[t])
    k = max(0, int(pruning_size))
    if k == 0:
        return set(), set()
    kth = scores[order[min(k, len(order)) - 1]]
    may = {t for t in range(len(scores)) if scores[t] >= kth}
    if k < len(order):
        nxt = scores[order[k]]
        must = {t for t in range(len(scores)) if scores[t] > nxt}
    else:
        must = set(range(len(scores)))          # the whole list fits: tags of probability 0 (-inf) included
    if use_beta:
        best = scores[order[0]]
        pb = math.exp(best) if best > -700 else 0.0

        def p(s):
            return math.exp(s) if s > -700 else 0.0
        may = {t for t in may if p(scores[t]) >= beta * pb * (1 - 1e-5) and (pb > 0 or t == order[0])}
        must = {t for t in must if p(scores[t]) > beta * pb * (1 + 1e-5)}
        # the beam walks tags best-first and stops at the first one below the threshold
    return must, may


class Oracle:
    def __init__(self, tag, dep, cats, binary, unary, roots, penalty, admitted, max_items=40000):
        """cats: input category list (tag index -> category); binary(x, y)/unary(x) return result objects with
        .cat .op_string .op_symbol .head_is_left; admitted: list (per word) of sets of tag indices."""
        self.tag, self.dep = np.asarray(tag, dtype=np.float64), np.asarray(dep, dtype=np.float64)
        self.n = self.tag.shape[0]
        self.cats, self.binary, self.unary = cats, binary, unary
        self.roots = set(roots)
        self.penalty = float(penalty)
        self.admitted = admitted
        self.max_items = max_items
        self._bmemo, self._umemo = {}, {}
        self.grammar_calls = 0

    def _b(self, x, y):
        k = (x, y)
        if k not in self._bmemo:
            self.grammar_calls += 1
            self._bmemo[k] = [(r.cat, r.op_string, r.op_symbol, bool(r.head_is_left)) for r in self.binary(x, y)]
        return self._bmemo[k]

    def _u(self, x):
        if x not in self._umemo:
            self._umemo[x] = [(r.cat, r.op_string, r.op_symbol) for r in self.unary(x)]
        return self._umemo[x]

    # ------------------------------------------------------------------ best scores (Viterbi over (cat, head))
    def best(self):
        """returns best rooted score (or None) and the chart {(i,j): {(cat, head): score}}"""
        n = self.n
        chart = {}
        for span in range(1, n + 1):
            for i in range(0, n - span + 1):
                j = i + span
                cell = {}
                if span == 1:
                    for t in self.admitted[i]:
                        key = (self.cats[t], i)
                        s = float(self.tag[i, t])
                        if key not in cell or s > cell[key]:
                            cell[key] = s
                for k in range(i + 1, j):
                    for (lc, lh), ls in chart[(i, k)].items():
                        for (rc, rh), rs in chart[(k, j)].items():
                            for cat, _, _, hl in self._b(lc, rc):
                                head, child = (lh, rh) if hl else (rh, lh)
                                s = ls + rs + float(self.dep[child, head + 1])
                                key = (cat, head)
                                if key not in cell or s > cell[key]:      # a score of -inf is still a derivation
                                    cell[key] = s
                if n == 1 or span != n:
                    self._unary_closure_best(cell)
                chart[(i, j)] = cell
        top = None
        for (cat, head), s in chart[(0, n)].items():
            if cat in self.roots:
                t = s + float(self.dep[head, 0])
                if top is None or t > top:
                    top = t
        return top, chart

    def _unary_closure_best(self, cell):
        agenda = list(cell.items())
        steps = 0
        while agenda:
            (cat, head), s = agenda.pop()
            if cell.get((cat, head), -math.inf) > s:
                continue
            for ucat, _, _ in self._u(cat):
                steps += 1
                if steps > 100000:
                    raise Budget('unary closure does not terminate (cyclic unary rules?)')
                ns = s - self.penalty
                if (ucat, head) not in cell or ns > cell[(ucat, head)]:
                    cell[(ucat, head)] = ns
                    agenda.append(((ucat, head), ns))

    # ------------------------------------------------------------------ full enumeration
    def derivations(self):
        """all rooted derivations as (score, tree); raises Budget beyond max_items chart entries"""
        n = self.n
        chart = {}
        total = 0
        for span in range(1, n + 1):
            for i in range(0, n - span + 1):
                j = i + span
                items = []
                if span == 1:
                    for t in sorted(self.admitted[i]):
                        items.append((self.cats[t], float(self.tag[i, t]), i, ('L', i, self.cats[t])))
                for k in range(i + 1, j):
                    for lc, ls, lh, lt in chart[(i, k)]:
                        for rc, rs, rh, rt_ in chart[(k, j)]:
                            for cat, lab, sym, hl in self._b(lc, rc):
                                head, child = (lh, rh) if hl else (rh, lh)
                                items.append((cat, ls + rs + float(self.dep[child, head + 1]), head,
                                              ('B', cat, lab, sym, hl, lt, rt_)))
                                if len(items) + total > self.max_items:
                                    raise Budget('too many derivations')
                if n == 1 or span != n:
                    q = list(items)
                    while q:
                        cat, s, head, tree = q.pop()
                        for ucat, lab, sym in self._u(cat):
                            it = (ucat, s - self.penalty, head, ('U', ucat, lab, sym, tree))
                            items.append(it)
                            q.append(it)
                            if len(items) + total > self.max_items:
                                raise Budget('too many derivations')
                total += len(items)
                chart[(i, j)] = items
        out = []
        for cat, s, head, tree in chart[(0, n)]:
            if cat in self.roots:
                out.append((s + float(self.dep[head, 0]), tree))
        return out


# ---------------------------------------------------------------------- returned trees
def tree_to_tuple(tree):
    """depccg Tree -> derivation tuple (leaf index by position)"""
    counter = [0]

    def rec(node):
        if node.is_leaf:
            i = counter[0]
            counter[0] += 1
            return ('L', i, node.cat)
        if node.is_unary:
            return ('U', node.cat, node.op_string, node.op_symbol, rec(node.children[0]))
        l = rec(node.children[0])
        r = rec(node.children[1])
        return ('B', node.cat, node.op_string, node.op_symbol, bool(node.head_is_left), l, r)
    return rec(tree)


def strip_labels(t):
    """shape + categories only"""
    if t[0] == 'L':
        return t
    if t[0] == 'U':
        return ('U', t[1], strip_labels(t[4]))
    return ('B', t[1], strip_labels(t[5]), strip_labels(t[6]))


def score_of_tree(tree, tag, dep, cats, penalty, use_tree_flags=True, head_left=None):
    """model score recomputed from a returned depccg Tree alone (C09).
    Leaf categories are looked up in `cats` (first match); returns (score, nunary) or raises KeyError."""
    idx = {}
    for i, c in enumerate(cats):
        idx.setdefault(c, i)
    pos = [0]
    nun = [0]

    def rec(node):
        if node.is_leaf:
            i = pos[0]
            pos[0] += 1
            return float(tag[i, idx[node.cat]]), i
        if node.is_unary:
            s, h = rec(node.children[0])
            nun[0] += 1
            return s - penalty, h
        ls, lh = rec(node.children[0])
        rs, rh = rec(node.children[1])
        hl = node.head_is_left if use_tree_flags else head_left
        head, child = (lh, rh) if hl else (rh, lh)
        return ls + rs + float(dep[child, head + 1]), head
    s, h = rec(tree)
    return s + float(dep[h, 0]), nun[0]

"""C12 — rule labels and head directions on trees are those the grammar assigned
(a) parser output: real search over table grammars whose results carry unique labels;
(b) reader output: files printed from grammar-licensed trees, read by the real readers / Tree.of_nltk_tree."""
import copy
import os
import tempfile

from vlib import env, search, treegen
from vlib.checks import _searchcommon as SC
from vlib.runner import shard_rng, stable_hash

ID = PROP = 'C12'
LEVEL = 'exploration'
RULE = ('(a) sentences parsed by the real search with table grammars in which every result has a unique (label, symbol) and its own '
        'head flag, 2-3 results per pair incl. same-category-different-label results, 2-3 differently labelled unary targets per '
        'category, head-left, head-right and mixed grammars, 1-best and n-best: every unary/binary node must carry label, symbol and '
        'head flag of a grammar result for its children with the node\'s category. (b) grammar-licensed English/Japanese trees printed '
        'by the real printers (auto, xml, jigg_xml, ptb) or handed over as an nltk-style tree, read by the real readers: a binary node '
        'whose category the active grammar derives from its children must carry the label and symbol of such a result (and, where the '
        'format has no head field, its head direction); other nodes must be labelled unk. distinct = fingerprint of the case; '
        'non-trivial = the grammar offered >= 2 results for some node\'s children (a) / the tree has a binary node (b).')
ASSUMPTIONS = SC.ASSUMPTIONS + ['reader trees are judged on the categories the reader produced (format spelling neutral)']
REQUIRED_MONITORS = {'reader:head-field-nodes': 500, 'monitor:label-checked-among-several': 300, 'reader:binary-nodes-derivable': 300, 'reader:binary-nodes-underivable': 30,
                     'reader:nltk-trees': 30}
prepare = SC.prepare


def shards(tier, seed):
    q = tier == 'quick'
    out = SC.shards(tier, seed, nplain=6, nasan=2, q_cases=350, real=False, q_asan=200)
    out += [{'name': f'reader-{lang}{k}', 'kind': 'reader', 'lang': lang, 'cases': 100 if q else 8000, 'budget_s': 45 if q else 600}
            for lang in ('en', 'ja') for k in range(4)]
    # one process that switches the active language between reads (the label must be the ACTIVE grammar's)
    out += [{'name': f'reader-mixed{k}', 'kind': 'reader', 'lang': 'mixed', 'cases': 60 if q else 4000, 'budget_s': 45 if q else 600}
            for k in range(2)]
    return out


def gen(rng, spec):
    r = rng.random()
    big = rng.random() < 0.1         # a large category table with pairs that have 17-24 results
    case = search.gen_case(rng, nbest=rng.choice((1, 2, 2, 3)) if not big else 1, max_n=4, sparse=big or rng.random() < 0.35,
                           mixed_heads=r < 0.3, head_left=None if r < 0.3 else r < 0.65, many_cats=big)
    case['config']['max_step'] = min(case['config']['max_step'], 30000)
    return case


def per_case(E, case, sums):
    """results of the multiprocessing path reach the caller pickled: labels and head flags must survive that"""
    import pickle
    from vlib import oracle_cky
    out = E.run(case)
    if out['error'] is not None or not out['results']:
        return
    for lst in out['results']:
        for st in lst:
            try:
                copy_ = pickle.loads(pickle.dumps(st.tree))
            except Exception as e:
                E.violation('tree:label-not-from-creating-rule', f'a returned tree cannot be pickled: {e!r}', {'case': search.case_to_json(case)})
                return
            E.R.count('monitor:pickled-tree-compared')
            if oracle_cky.tree_to_tuple(copy_) != oracle_cky.tree_to_tuple(st.tree):
                E.violation('tree:head-flag-not-from-rule', 'labels / head flags of a returned tree change when it is pickled (as the '
                            'multiprocessing path does)', {'case': search.case_to_json(case)})
                return


def run(spec, R):
    if spec['kind'] == 'reader':
        return run_reader(spec, R)
    SC.run(ID, PROP, spec, R, gen, lambda s, c: s.get('parsed') and max(len(x[0]) for x in c['sentences']) >= 2, per_case)


class FakeNltk:
    """duck-typed nltk.Tree: label(), indexing, iteration"""

    def __init__(self, label, children):
        self._label, self._children = label, children

    def label(self):
        return self._label

    def __getitem__(self, i):
        return self._children[i]

    def __iter__(self):
        return iter(self._children)

    def __len__(self):
        return len(self._children)


def to_fake_nltk(tree):
    if tree.is_leaf:
        return FakeNltk(str(tree.cat), [tree.token['word']])
    return FakeNltk(str(tree.cat), [to_fake_nltk(c) for c in tree.children])


def judge(tree, ix, R, fmt, has_head_field, wit, path='root', src=None):
    if tree.is_leaf:
        return
    if src is not None and (src.is_leaf or len(src.children) != len(tree.children)):
        src = None                                   # shapes differ: another property's matter (C08/C15)
    for i, c in enumerate(tree.children):
        judge(c, ix, R, fmt, has_head_field, wit, f'{path}/{i}', None if src is None else src.children[i])
    if tree.is_unary:
        return
    if has_head_field and src is not None:
        # a format with a head field: the flag on the tree is the file's field or the grammar's, never a third thing
        try:
            allowed = {bool(src.head_is_left)} | {bool(r.head_is_left) for r in ix.binary(tree.children[0].cat, tree.children[1].cat)
                                                  if r.cat == tree.cat}
        except Exception:
            allowed = None
        if allowed is not None:
            R.count('reader:head-field-nodes')
            if bool(tree.head_is_left) not in allowed:
                R.violation('tree:head-flag-not-from-rule',
                            f'{fmt} reader: {path}: node {tree.cat!s} has head_is_left={tree.head_is_left}; the file says '
                            f'{bool(src.head_is_left)} and so does every rule deriving it', wit)
    try:
        cands = [r for r in ix.binary(tree.children[0].cat, tree.children[1].cat) if r.cat == tree.cat]
    except Exception:
        return
    if cands:
        R.count('reader:binary-nodes-derivable')
        lab = [r for r in cands if r.op_string == tree.op_string and r.op_symbol == tree.op_symbol]
        if not lab:
            R.violation('tree:label-not-from-creating-rule',
                        f'{fmt} reader: {path}: node {tree.cat!s} <- ({tree.children[0].cat!s}, {tree.children[1].cat!s}) is labelled '
                        f'({tree.op_string}, {tree.op_symbol}); the grammar derives it with {[(r.op_string, r.op_symbol) for r in cands]}', wit)
        elif not has_head_field and not any(bool(r.head_is_left) == bool(tree.head_is_left) for r in lab):
            R.violation('tree:head-flag-not-from-rule',
                        f'{fmt} reader: {path}: node {tree.cat!s} has head_is_left={tree.head_is_left}, its rule has '
                        f'{[r.head_is_left for r in lab]}', wit)
    else:
        R.count('reader:binary-nodes-underivable')
        if tree.op_string != 'unk':
            R.violation('tree:label-not-from-creating-rule',
                        f'{fmt} reader: {path}: underivable node {tree.cat!s} is labelled {tree.op_string!r}, expected unk', wit)


def flip_heads(tree, rng):
    """AUTO files written by other tools may carry head fields that differ from the grammar's: flip some flags"""
    if tree.is_leaf:
        return
    if not tree.is_unary and rng.random() < 0.5:
        tree.head_is_left = not tree.head_is_left
    for c in tree.children:
        flip_heads(c, rng)


def run_reader(spec, R):
    lang = spec['lang']
    mixed = lang == 'mixed'
    if mixed:
        lang = 'en'
    # modules are imported while the language still has its default, the language is chosen afterwards (as __main__ does)
    env.install()
    env.stub_native_parsing()
    from depccg.printer import to_string
    from depccg.tools.reader import read_auto, read_xml, read_jigg_xml, read_ptb
    from depccg.tree import Tree
    from depccg.lang import set_global_language_to
    ix = treegen.index(lang)
    other_ix = treegen.index('ja') if mixed else None
    set_global_language_to(lang)
    rng = shard_rng(ID, spec['seed'], spec['name'])
    tmp = tempfile.mkdtemp(prefix='verif-c12-')
    readers = {'auto': (read_auto, 'x.auto', True), 'xml': (read_xml, 'x.xml', False),
               'jigg_xml': (read_jigg_xml, 'x.jigg.xml', False), 'ptb': (read_ptb, 'x.ptb', False)}
    try:
        for i in range(spec['cases']):
            # mostly licensed trees; a share of arbitrary ones exercises the "underivable -> unk" clause
            batch = treegen.make_batch(rng, lang, 'all', max_sentences=2, max_nbest=2, licensed_share=0.8, attr_domain='all')
            flat = [st for trees in batch for st in trees]
            wit = {'lang': lang, 'batch': repr([treegen.tree_dump(st.tree) for st in flat])[:3000]}
            nontriv = any(not st.tree.is_leaf and not st.tree.is_unary or len(st.tree.leaves) >= 2 for st in flat)
            for fmt, (reader, fn, has_head) in readers.items():
                R.case(stable_hash((fmt, wit['batch'])), nontriv)
                path = os.path.join(tmp, fn)
                try:
                    work = copy.deepcopy(batch)
                    if fmt == 'auto' and rng.random() < 0.5:
                        for trees in work:
                            for st in trees:
                                flip_heads(st.tree, rng)
                        R.count('reader:auto-files-with-foreign-head-fields')
                    text = to_string(work, format=fmt)
                    with open(path, 'w', encoding='utf-8') as f:
                        f.write(text)
                except Exception as e:
                    R.hist('foreign_violation_keys', f'{fmt}:raises')
                    continue
                # in the mixed shard every file is read under both languages, in random order, in this one process
                langs = [(lang, ix)] if not mixed else rng.sample([('en', ix), ('ja', other_ix)], 2)
                for active, aix in langs:
                    set_global_language_to(active)
                    try:
                        read = list(reader(path))
                    except Exception as e:
                        R.hist('foreign_violation_keys', f'read_{fmt}:raises')
                        continue
                    R.count(f'reader:{fmt}-trees', len(read))
                    if mixed:
                        R.count(f'reader:mixed-reads-under-{active}')
                    srcs = [st.tree for trees in work for st in trees]
                    if len(srcs) != len(read):
                        srcs = [None] * len(read)
                    for rr, src_tree in zip(read, srcs):
                        judge(rr.tree, aix, R, f'{fmt}[{active}]', has_head, dict(wit, format=fmt, active_language=active, text=text[:1200]),
                              src=src_tree)
                set_global_language_to(lang)
            for st in flat:
                R.case(stable_hash(('nltk', treegen.tree_dump(st.tree))), len(st.tree.leaves) >= 2)
                for active, aix in ([(lang, ix)] if not mixed else rng.sample([('en', ix), ('ja', other_ix)], 2)):
                    set_global_language_to(active)
                    try:
                        t = Tree.of_nltk_tree(to_fake_nltk(st.tree))
                    except Exception as e:
                        R.violation('tree:label-not-from-creating-rule', f'Tree.of_nltk_tree raised {e!r}', wit)
                        continue
                    R.count('reader:nltk-trees')
                    judge(t, aix, R, f'nltk[{active}]', False, dict(wit, format='nltk', active_language=active))
                set_global_language_to(lang)
            if R.out_of_time():
                break
        R.sample({'lang': lang, 'formats': list(readers) + ['nltk'], 'last_batch_leaves': [len(st.tree.leaves) for st in flat]})
    finally:
        import shutil
        shutil.rmtree(tmp, ignore_errors=True)


def replay(w, R):
    SC.replay(PROP, w, R)

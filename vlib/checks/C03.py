"""C03 — English combinatory rules are sound / complete on identical parts
(contract on the real en.apply_binary_rules; reference schema table in vlib/schemas_en.py)."""
from vlib import env, gens, refcat, contracts, schemas_en
from vlib.runner import shard_rng

ID = 'C03'
LEVEL = 'exploration'
RULE = ('a case is an ordered pair (x, y) given to the real en.apply_binary_rules: pairs of the shipped English and rebank tag '
        'inventories, every shipped seen-rule pair, pairs with results of earlier calls (rule closure, depth 2), and schema '
        'instantiations (A,B,C,D over {S,N,NP,PP}x{none,X,nb,dcl,b,em,ng,pss} + punctuation; premises of fa/ba/fc/bx/gfc/gbx/'
        'conj/lp/rp/type-changing built and then perturbed in features and slashes incl. |). distinct = fingerprint of the '
        'pair; non-trivial = the call returned a result or the converse predicted one.')
ASSUMPTIONS = ['schema table in vlib/schemas_en.py states the property; inputs carry unary features only',
               'results are judged on the inputs with nb erased (the grammar\'s own normalisation; nb-independence is C14)']
REQUIRED_MONITORS = {'contract:en.apply_binary_rules': 2000, 'contract:en:result-justified': 1000,
                     'contract:en:converse-expected': 500}
NSHARDS = 16
LABELS = ('fa', 'ba', 'fc', 'bx', 'gfc', 'gbx', 'conj', 'lp', 'rp')


def shards(tier, seed):
    q = tier == 'quick'
    out = [{'name': f'schema{k}', 'kind': 'schema', 'cases': 7000 if q else 250000, 'budget_s': 50 if q else 600} for k in range(8)]
    out += [{'name': f'inv{k}', 'kind': 'inv', 'k': k, 'n': 6, 'cases': 9000 if q else 10**9, 'budget_s': 50 if q else 600} for k in range(6)]
    out += [{'name': 'seen', 'kind': 'seen', 'budget_s': 60 if q else 600},
            {'name': 'closure', 'kind': 'closure', 'cases': 6000 if q else 300000, 'budget_s': 50 if q else 600},
            {'name': 'repotests', 'kind': 'repotests', 'budget_s': 300}]
    return out


def call(x, y, R, sample=False):
    """x, y reference values. The contract does the judging; the driver records coverage and totality."""
    from depccg.grammar import en
    X, Y = refcat.from_ref(x), refcat.from_ref(y)
    try:
        res = en.apply_binary_rules(X, Y)
    except Exception as e:
        R.case((x, y), True)
        R.violation('en:raises', f'apply_binary_rules raised {e!r}', {'x': refcat.ref_print(x), 'y': refcat.ref_print(y)})
        return []
    ex, ey = refcat.erase(x, {'nb'}), refcat.erase(y, {'nb'})
    R.case((x, y), bool(res) or bool(schemas_en.converse(ex, ey)))
    if sample and res:
        R.sample({'x': refcat.ref_print(x), 'y': refcat.ref_print(y),
                  'results': [[str(r.cat), r.op_string, r.op_symbol, r.head_is_left] for r in res]})
    return res


def rnd_part(rng, atoms, big=False):
    return gens.random_value(rng, atoms, rng.choice((1, 1, 1, 2, 2, 3) if not big else (2, 3, 4, 4, 5, 6)), slashes=('/', '\\'))


def one_leaf_changed(v, rng):
    """exactly one atom gets a different concrete feature (everything else identical)"""
    leaves = []

    def paths(x, p=()):
        if x[0] == 'A':
            if x[1] in gens.EN_BASES:
                leaves.append(p)
        else:
            paths(x[1], p + (1,))
            paths(x[3], p + (3,))
    paths(v)
    if not leaves:
        return v
    target = rng.choice(leaves)

    def put(x, p):
        if not p:
            cur = x[2][1] if x[2] else None
            f = rng.choice([f for f in ('dcl', 'b', 'em', 'ng', 'pss', 'thr', 'expl') if f != cur])
            return ('A', x[1], ('U', f))
        lst = list(x)
        lst[p[0]] = put(x[p[0]], p[1:])
        return tuple(lst)
    return put(v, target)


def perturb_feats(v, rng, p):
    if v[0] == 'A':
        if rng.random() < p and v[1] in gens.EN_BASES:
            f = rng.choice((None, 'X', 'nb', 'dcl', 'b', 'em', None, 'X'))
            return ('A', v[1], None if f is None else ('U', f))
        return v
    s = v[2]
    if rng.random() < p * 0.3:
        s = rng.choice('/\\|')
    return ('F', perturb_feats(v[1], rng, p), s, perturb_feats(v[3], rng, p))


def schema_case(rng, atoms, punct):
    F = schemas_en.F_
    A, B, C, D = (rnd_part(rng, atoms) for _ in range(4))
    if rng.random() < 0.3:
        B = rnd_part(rng, atoms, big=True)               # deep matched part
    if rng.random() < 0.25:
        A = B                                            # modifier
    if rng.random() < 0.15:
        B = rng.choice((('A', 'N', None), ('A', 'NP', None)))   # bare N/NP
    r0 = rng.random()
    B2 = B if r0 < 0.4 else (perturb_feats(B, rng, 0.5) if r0 < 0.75 else one_leaf_changed(B, rng))
    sl = lambda s: s if rng.random() < 0.9 else '|'      # noqa: E731
    row = rng.choice(LABELS + ('tc', 'fa', 'ba', 'gbx', 'gfc', 'bx'))
    if row == 'fa':
        x, y = F(A, sl('/'), B), B2
    elif row == 'ba':
        x, y = B2, F(A, sl('\\'), B)
    elif row == 'fc':
        x, y = F(A, sl('/'), B), F(B2, sl('/'), C)
    elif row == 'bx':
        x, y = F(B, sl('/'), C), F(A, sl('\\'), B2)
    elif row == 'gfc':
        x, y = F(A, sl('/'), B), F(F(B2, sl('/'), C), rng.choice('/\\|'), D)
    elif row == 'gbx':
        x, y = F(F(B, sl('/'), C), rng.choice('/\\|'), D), F(A, sl('\\'), B2)
    elif row == 'conj':
        x, y = rng.choice(punct), rng.choice((A, F(A, '/', F(A, '\\', B)), F(('A', 'NP', None), '\\', ('A', 'NP', None)), rng.choice(punct)))
    elif row == 'lp':
        x, y = rng.choice(punct), rng.choice((A, F(A, '/', B)))
    elif row == 'rp':
        x, y = rng.choice((A, F(A, '\\', B))), rng.choice(punct)
    else:
        (x, y), _ = rng.choice(list(schemas_en.LISTED_TC.items()) + [(schemas_en.LISTED_BA, None)])
    r = rng.random()
    if r < 0.15:
        x = perturb_feats(x, rng, 0.25)
    elif r < 0.3:
        y = perturb_feats(y, rng, 0.25)
    return x, y


def run(spec, R):
    env.install('en')
    contracts.bind(R)
    contracts.install_unification_contracts()
    contracts.install_en_contracts()
    rng = shard_rng(ID, spec['seed'], spec['name'])
    kind = spec['kind']
    if kind == 'repotests':
        from vlib import repotests
        repotests.run_repo_tests(R, ['tests/grammar/test_en.py'], lambda: None)
        return
    atoms = [a for a in gens.en_atoms(feats=(None, 'X', 'nb', 'dcl', 'b', 'em', 'ng', 'pss'), punct=())]
    punct = [('A', p, None) for p in (',', ';', 'conj', '.', ':', 'LRB', 'RRB', 'LQU', 'RQU')]
    if kind == 'schema':
        for i in range(spec['cases']):
            x, y = schema_case(rng, atoms + punct[:3], punct)
            call(x, y, R, sample=i % 500 == 0)
            if i % 128 == 0 and R.out_of_time():
                R.extra['cut_short'] = 1
                break
    elif kind == 'inv':
        inv = {n: gens.inventory(n) for n in ('en', 'en_rebank')}
        todo = []
        for name, vs in inv.items():
            n = len(vs)
            R.extra[f'inventory_{name}'] = n
            if spec['cases'] >= n * n:
                todo += [(vs[i], vs[j]) for i in range(n) for j in range(n) if (i * n + j) % spec['n'] == spec['k']]
            else:
                todo += [(rng.choice(vs), rng.choice(vs)) for _ in range(spec['cases'] // 2)]
        for i, (x, y) in enumerate(todo):
            call(x, y, R, sample=i % 3000 == 0)
            if i % 128 == 0 and R.out_of_time():
                R.extra['cut_short'] = 1
                break
    elif kind == 'seen':
        for name in ('en', 'en_rebank'):
            for i, (a, b) in enumerate(gens.seen_pairs(name)):
                call(refcat.ref_parse(a), refcat.ref_parse(b), R, sample=i % 1500 == 0)
                R.count(f'seen-pairs:{name}')
    else:
        inv = gens.inventory('en') + gens.inventory('en_rebank')
        pool = []
        seen = gens.seen_pairs('en')
        for a, b in rng.sample(seen, min(len(seen), 1500)):
            for r in call(refcat.ref_parse(a), refcat.ref_parse(b), R):
                pool.append(refcat.to_ref(r.cat))
        R.extra['closure_pool_depth1'] = len(set(pool))
        for i in range(spec['cases']):
            a = rng.choice(pool) if pool else rng.choice(inv)
            b = rng.choice(inv) if rng.random() < 0.7 else rng.choice(pool or inv)
            if rng.random() < 0.5:
                a, b = b, a
            for r in call(a, b, R, sample=i % 2000 == 0):
                if len(pool) < 20000:
                    pool.append(refcat.to_ref(r.cat))
            if i % 128 == 0 and R.out_of_time():
                break
        R.extra['closure_pool_final'] = len(set(pool))


def replay(w, R):
    env.install('en')
    contracts.bind(R)
    contracts.install_unification_contracts()
    contracts.install_en_contracts()
    for r in call(refcat.ref_parse(w['x']), refcat.ref_parse(w['y']), R):
        print('  result:', r)

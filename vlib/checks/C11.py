"""C11 — batch results align with inputs and do not depend on batch history, chunking or worker schedule."""
import os
import time

import numpy as np

from vlib import search, synth, build
from vlib.checks import _searchcommon as SC
from vlib.runner import shard_rng, stable_hash

ID = PROP = 'C11'
LEVEL = 'exploration'
RULE = ('in-process: batches of 1-12 sentences mixing parseable, unparseable, over-long (max_length 3..250), budget-exhausted (tiny '
        'max_step) and zero-token sentences, grammars whose rules create categories beyond the input list (the category table and '
        'rule cache grow); each batch is compared with every sentence parsed alone in a fresh call, with a random permutation and a '
        'random subset. pool: batches of 21-60 sentences parsed by the real multiprocessing path with processes in {1,2,3,5,8} and '
        'max_chunk_size in {1,2,7,20}, with seed-determined delays injected into the grammar callable per worker process so that late '
        'chunks finish first; compared with the in-process result. shape: mismatching inputs must raise before the first '
        'parse_sentence call (call counter in the glue runtime). distinct = fingerprint of (batch, histories); non-trivial = batch of '
        '>= 2 sentences compared under >= 2 histories/schedules.')
ASSUMPTIONS = SC.ASSUMPTIONS + ['schedules (process counts, chunk sizes, delays) are sampled, not enumerated',
                                'results that crossed the Pool are pickled copies: compared by content']
REQUIRED_MONITORS = {'history:alone-compared': 300, 'history:permutation-compared': 50, 'pool:calls': 4, 'pool:sentences-compared': 100,
                     'shape:rejected-before-parsing': 50, 'failure:own-placeholder-only': 50}
OWN_KEYS = ('batch:misaligned', 'batch:history-dependent', 'batch:schedule-dependent', 'batch:failure-leak', 'batch:shape-not-rejected',
            'batch:empty-sentence')


def prepare(tier, seed):
    return SC.prepare(tier, seed)


def shards(tier, seed):
    q = tier == 'quick'
    out = [{'name': f'inproc{k}', 'kind': 'inproc', 'variant': 'plain', 'build': 'plain', 'cases': 150 if q else 5000,
            'budget_s': 45 if q else 600} for k in range(6)]
    out += [{'name': f'inproc-asan{k}', 'kind': 'inproc', 'variant': 'asan', 'build': 'asan', 'cases': 40 if q else 2000,
             'budget_s': 45 if q else 600} for k in range(2)]
    out += [{'name': f'pool{k}', 'kind': 'pool', 'variant': 'plain', 'build': 'plain', 'cases': 5 if q else 40,
             'budget_s': 50 if q else 600, 'timeout': 1500} for k in range(5)]
    out += [{'name': 'pool-asan', 'kind': 'pool', 'variant': 'asan', 'build': 'asan', 'cases': 2 if q else 20,
             'budget_s': 50 if q else 600, 'timeout': 1500}]
    out += [{'name': f'shape{k}', 'kind': 'shape', 'variant': 'plain', 'build': 'plain', 'cases': 150 if q else 5000,
             'budget_s': 40 if q else 300} for k in range(2)]
    return out


class DelayedBinary:
    """picklable grammar callable that sleeps once per worker process (seed-determined, keyed on the process)"""
    _slept = {}

    def __init__(self, g, delays):
        self.g, self.delays = g, delays

    def __call__(self, x, y):
        pid = os.getpid()
        if self.delays and pid not in DelayedBinary._slept:
            import multiprocessing
            ident = (multiprocessing.current_process()._identity or (0,))[0]
            DelayedBinary._slept[pid] = True
            time.sleep(self.delays[ident % len(self.delays)])
        return self.g.apply_binary(x, y)


def result_key(lst):
    """content of one result list: trees with categories/labels/heads/words + score bits"""
    from vlib import oracle_cky
    out = []
    for st in lst:
        words = tuple(t.get('word') for t in st.tree.tokens)
        out.append((oracle_cky.tree_to_tuple(st.tree), words, np.float32(st.score).tobytes() if st.score == st.score else b'nan'))
    return out


def gen_batch(rng, nsent, hostile=True):
    sparse = nsent > 12 or rng.random() < 0.6
    case = search.gen_case(rng, n_sent=nsent, max_n=6, sparse=sparse,
                           family=rng.choice(('uniform', 'ties', 'ties', 'softmax', 'deceptive')))
    cfg = case['config']
    cfg['nbest'] = rng.choice((1, 1, 1, 2, 3)) if nsent <= 12 else rng.choice((1, 1, 2))
    if cfg['nbest'] > 1:
        cfg['max_step'] = 20000          # n-best search is exhaustive up to the k-th goal: keep it bounded
    kinds = []
    T = len(case['cats'])
    for i in range(nsent):
        r = rng.random()
        words, tag, dep = case['sentences'][i]
        if hostile and r < 0.08 and i > 0:
            case['sentences'][i] = ([], np.zeros((0, T), dtype=np.float32), np.zeros((0, 1), dtype=np.float32))
            kinds.append('empty')
        elif r < 0.2:
            n = rng.randint(7, 9)
            tag2, dep2 = synth.dyadic_scores(rng, n, T)
            case['sentences'][i] = ([f'w{k}' for k in range(n)], tag2, dep2)
            kinds.append('long')
        else:
            kinds.append('normal')
    cfg['max_step'] = min(cfg['max_step'], 50000)
    if rng.random() < 0.45:
        # a narrow beam: per-word state left over from an earlier sentence would change what is admitted
        cfg['pruning_size'] = rng.randint(1, max(1, T - 1))
        if rng.random() < 0.5:
            cfg['use_beta'] = True
            cfg['beta'] = rng.choice((1e-3, 0.1, 0.5))
    if 'long' in kinds and (not sparse or rng.random() < 0.7):
        cfg['max_length'] = 6
    if rng.random() < 0.25:
        cfg['max_step'] = rng.choice((1, 3, 10, 40))
    return case, kinds


def run_batch(E, case, order=None, **over):
    sub = dict(case)
    if order is not None:
        sub['sentences'] = [case['sentences'][i] for i in order]
        sub['_doc'] = [case['_doc'][i] for i in order] if case.get('_doc') else None
        if sub['_doc'] is None:
            sub.pop('_doc')
    out = E.run(sub, **over)
    if '_doc' in sub and '_doc' not in case and order is None:
        case['_doc'] = sub['_doc']
    return out


def viol(E, key, what, wit):
    E.R.violation(key, what, wit)


def run(spec, R):
    E = search.Engine(R, spec['variant'], None)
    rng = shard_rng(ID, spec['seed'], spec['name'])
    {'inproc': run_inproc, 'pool': run_pool, 'shape': run_shape}[spec['kind']](E, spec, R, rng)


def long_then_wide(E, R, rng):
    """a sentence of more than 50 tokens followed by sentences that need low-ranked tags of a wide tag set: settings must not
    be carried from one sentence to the next"""
    T = 26
    g, hl = synth.random_grammar(rng, T + 2, T, density=0.02, max_results=1, unary_p=0.0)
    # make sure some pairs of low-ranked tags combine into a root
    root = T
    for a in range(T - 4, T):
        for b in range(T - 4, T):
            g.binary[(a, b)] = [(root, f'z{a}_{b}', f'<z{a}_{b}>', hl)]
    cats = [synth.SCat(i) for i in range(T)]
    sents = []
    n_long = rng.randint(51, 54)
    tl, dl = synth.logsoftmax_scores(rng, n_long, T)
    sents.append(([f'w{i}' for i in range(n_long)], tl, dl))
    for _ in range(3):
        tag = np.full((2, T), -30.0, dtype=np.float32)
        order = list(range(T))
        for i in range(2):
            # the needed tags (T-4..T-1) are ranked 22nd..26th: every other tag scores better
            for rank, t in enumerate(order):
                tag[i, t] = -0.1 * (rank + 1)
        dep = np.zeros((2, 3), dtype=np.float32)
        sents.append((['a', 'b'], tag, dep))
    case = {'grammar': g, 'binary': synth.BinaryFun(g), 'unary': synth.UnaryFun(g), 'head_left': hl, 'cats': cats,
            'roots': [synth.SCat(root)], 'sentences': sents, 'family': 'softmax', 'exact': False,
            'config': {'unary_penalty': 0.1, 'nbest': 1, 'pruning_size': 50, 'use_beta': False, 'beta': 1e-5, 'max_step': 200000, 'max_length': 250}}
    wit = {'case': 'long-then-wide (generated by C11.long_then_wide)', 'tokens_of_first_sentence': n_long}
    out = E.run(case)
    R.count('history:long-then-wide')
    if out['error'] is not None:
        if not isinstance(out['error'], MemoryError):
            viol(E, 'batch:misaligned', f'long-then-wide batch raised {out["error"]!r}', wit)
        return
    for i in (1, 2, 3):
        alone = run_batch(E, case, order=[i])
        if alone['error'] is None and result_key(out['results'][i]) != result_key(alone['results'][0]):
            viol(E, 'batch:history-dependent', f'sentence {i} (needs tags ranked 23rd-26th of 26, pruning_size 50) gives a different result after a '
                 f'{n_long}-token sentence than alone', wit)
            return


def run_inproc(E, spec, R, rng):
    from vlib.search import is_placeholder
    long_then_wide(E, R, rng)
    for ci in range(spec['cases']):
        n = rng.randint(1, 12)
        case, kinds = gen_batch(rng, n)
        wit = {'case': search.case_to_json(case), 'kinds': kinds}
        R.last(wit)
        out = run_batch(E, case)
        fp = stable_hash(wit['case'])
        if isinstance(out['error'], MemoryError):
            R.count('harness:memory-limit-hit')        # address-space limit of the shard, not a verdict
            continue
        if out['error'] is not None:
            R.case(fp, True)
            if 'empty' in kinds:
                viol(E, 'batch:empty-sentence', f'a batch containing a zero-token sentence raised {out["error"]!r} instead of yielding its placeholder', wit)
            else:
                viol(E, 'batch:misaligned', f'parsing.run raised {out["error"]!r}', wit)
            continue
        res = out['results']
        if len(res) != n:
            R.case(fp, True)
            viol(E, 'batch:misaligned', f'{len(res)} result lists for {n} sentences', wit)
            continue
        if any(len(lst) == 0 for lst in res):
            R.case(fp, True)
            viol(E, 'batch:failure-leak', f'sentence {[len(l) for l in res].index(0)} came back with an empty result list instead of a parse or '
                 f'its failure placeholder', wit)
            continue
        cfg = case['config']
        histories = 1
        # the public pairing helper must keep results and sentences aligned (also around failed / empty sentences)
        try:
            from depccg.tree import iter_parse_results
            pairs = list(iter_parse_results(res, case['_doc']))
            R.count('align:iter_parse_results')
            want = [(si + 1, ti + 1) for si, lst in enumerate(res) for ti in range(len(lst))]
            if [(p.sentence_index, p.tree_index) for p in pairs] != want:
                viol(E, 'batch:misaligned', f'iter_parse_results enumerates {[(p.sentence_index, p.tree_index) for p in pairs][:6]}, expected {want[:6]}', wit)
            else:
                for p in pairs:
                    if p.tokens is not case['_doc'][p.sentence_index - 1] or p.tree is not res[p.sentence_index - 1][p.tree_index - 1].tree:
                        viol(E, 'batch:misaligned', f'iter_parse_results pairs tree {p.sentence_index}/{p.tree_index} with the tokens of another sentence', wit)
                        break
        except Exception as e:
            viol(E, 'batch:misaligned', f'iter_parse_results raised {e!r}', wit)
        # every sentence alone, in a fresh call
        for i in range(n):
            words = case['sentences'][i][0]
            if kinds[i] == 'empty':
                R.count('failure:own-placeholder-only')
                if not is_placeholder(res[i], case['_doc'][i]):
                    viol(E, 'batch:empty-sentence', f'zero-token sentence {i} did not yield the failure placeholder', wit)
                continue
            if len(words) > cfg['max_length']:
                R.count('failure:own-placeholder-only')
                if not is_placeholder(res[i]):
                    viol(E, 'batch:failure-leak', f'over-long sentence {i} did not yield exactly its failure placeholder', wit)
            if is_placeholder(res[i], case['_doc'][i]) and len(words) <= cfg['max_length'] and len(words) >= 1:
                # a sentence that is not too long may fail only if it has no derivation or ran out of steps
                hi = sum(1 for j in range(i) if len(case['sentences'][j][0]) <= cfg['max_length'])
                pops = out['history'][hi][0][0] if hi < len(out['history']) else cfg['max_step']
                if pops < cfg['max_step']:
                    from vlib import oracle_cky
                    _, tag, dep = case['sentences'][i]
                    must = [oracle_cky.admitted_tags(tag[k], cfg['pruning_size'], cfg['use_beta'], cfg['beta'])[0] for k in range(len(words))]
                    try:
                        best, _ = oracle_cky.Oracle(tag, dep, case['cats'], case['binary'], case['unary'], case['roots'],
                                                    cfg['unary_penalty'], must, 20000).best()
                        R.count('failure:legitimacy-checked')
                        if best is not None:
                            viol(E, 'batch:failure-leak', f'sentence {i} ({len(words)} words, max_length={cfg["max_length"]}, {pops} pops < max_step) '
                                 f'was reported as failed although it has a derivation', dict(wit, sentence=i))
                    except oracle_cky.Budget:
                        pass
            alone = run_batch(E, case, order=[i])
            if isinstance(alone['error'], MemoryError):
                R.count('harness:memory-limit-hit')
                continue
            if alone['error'] is not None or len(alone['results']) != 1:
                viol(E, 'batch:history-dependent', f'sentence {i} alone: {alone["error"]!r}', wit)
                continue
            R.count('history:alone-compared')
            if is_placeholder(alone['results'][0]):
                R.count('failure:own-placeholder-only')
            if result_key(res[i]) != result_key(alone['results'][0]):
                viol(E, 'batch:history-dependent',
                     f'sentence {i} ({kinds[i]}) gives a different result inside the batch (after {i} earlier sentences) than parsed alone: '
                     f'scores {[float(s.score) for s in res[i]][:3]} vs {[float(s.score) for s in alone["results"][0]][:3]}', dict(wit, sentence=i))
            if case.get('_doc') and not is_placeholder(res[i], case['_doc'][i]):
                if any(a is not b for a, b in zip(res[i][0].tree.tokens, case['_doc'][i])):
                    viol(E, 'batch:misaligned', f'result {i} does not carry the token objects of sentence {i}', wit)
        histories += 1
        if n >= 2:
            order = list(range(n))
            rng.shuffle(order)
            if 'empty' in kinds and kinds[order[0]] == 'empty':
                order.append(order.pop(0))
            perm = run_batch(E, case, order=order)
            if perm['error'] is None and len(perm['results']) == n:
                R.count('history:permutation-compared')
                histories += 1
                for pos, i in enumerate(order):
                    if result_key(perm['results'][pos]) != result_key(res[i]):
                        viol(E, 'batch:history-dependent', f'sentence {i} gives a different result at position {pos} of a permuted batch',
                             dict(wit, order=order))
                        break
            sub = sorted(rng.sample(range(n), rng.randint(1, n - 1)))
            if kinds[sub[0]] != 'empty':
                so = run_batch(E, case, order=sub)
                if so['error'] is None and len(so['results']) == len(sub):
                    R.count('history:subset-compared')
                    histories += 1
                    for pos, i in enumerate(sub):
                        if result_key(so['results'][pos]) != result_key(res[i]):
                            viol(E, 'batch:history-dependent', f'sentence {i} gives a different result in the subset {sub}', dict(wit, subset=sub))
                            break
        R.case(fp, n >= 2 and histories >= 2)
        if ci < 2:
            R.sample({'sentences': n, 'kinds': kinds, 'config': cfg, 'categories_in': len(case['cats'])})
        if R.out_of_time():
            break


def run_pool(E, spec, R, rng):
    import math
    # chunk shapes at the edges: a last chunk of exactly one sentence, an exact multiple, one more than the chunk size
    edge = [(n, p) for p in (2, 3, 5, 8) for n in range(21, 61) if n % math.ceil(n / p) == 1]
    for ci in range(spec['cases']):
        n = rng.randint(21, 60)
        forced = None
        if ci == 0:
            n, forced = rng.choice(edge)
            R.count('pool:edge-shape-last-chunk-of-one')
        elif ci == 1:
            forced = rng.choice((2, 3, 5))
            n = forced * rng.randint(5, 10)
        elif ci == 2:
            forced, n = rng.choice((8, 16)), rng.randint(2, 6)      # more worker processes than sentences
        case, kinds = gen_batch(rng, n, hostile=False)
        delays = [rng.choice((0.0, 0.05, 0.3, 0.8)) for _ in range(8)]
        case['binary'] = DelayedBinary(case['grammar'], None)
        wit = {'case': search.case_to_json(case), 'kinds': kinds, 'delays': delays}
        ref = E.run(case)                                    # in-process reference (one chunk)
        if ref['error'] is not None or len(ref['results']) != n:
            R.violation('batch:misaligned', f'in-process run failed: {ref["error"]!r}', wit)
            continue
        procs = forced or rng.choice((1, 2, 3, 5, 8))
        chunk = rng.choice((1, 2, 7, 20)) if n > 20 else 1
        case['binary'] = DelayedBinary(case['grammar'], delays)
        DelayedBinary._slept.clear()
        t0 = time.time()
        from depccg.types import ScoringResult
        scores = [ScoringResult(t.copy(), d.copy()) for _, t, d in case['sentences']]
        try:
            pooled = E.P.run(case['_doc'], scores, list(case['cats']), list(case['roots']), case['binary'], case['unary'],
                             processes=procs, max_chunk_size=chunk, **case['config'])
        except Exception as e:
            R.case(stable_hash(wit['case']), True)
            R.violation('batch:schedule-dependent', f'pool path (processes={procs}, max_chunk_size={chunk}) raised {e!r}', wit)
            continue
        R.count('pool:calls')
        R.hist('pool_shapes', f'processes={procs} max_chunk_size={chunk} sentences={n}')
        R.extra['pool_wall_s'] = R.extra.get('pool_wall_s', 0) + round(time.time() - t0, 2)
        R.case(stable_hash((wit['case'], procs, chunk, delays)), True)
        if len(pooled) != n:
            R.violation('batch:misaligned', f'{len(pooled)} result lists for {n} sentences (processes={procs}, max_chunk_size={chunk})',
                        dict(wit, processes=procs, max_chunk_size=chunk))
            continue
        for i in range(n):
            R.count('pool:sentences-compared')
            if result_key(pooled[i]) != result_key(ref['results'][i]):
                R.violation('batch:schedule-dependent',
                            f'sentence {i} differs between the pool path (processes={procs}, max_chunk_size={chunk}, delays={delays}) and '
                            f'the in-process path', dict(wit, processes=procs, max_chunk_size=chunk, sentence=i))
                break
        if ci < 1:
            R.sample({'pool': {'sentences': n, 'processes': procs, 'max_chunk_size': chunk, 'delays': delays}})
        if R.out_of_time():
            break


def run_shape(E, spec, R, rng):
    from depccg.types import Token, ScoringResult
    for ci in range(spec['cases']):
        n = rng.randint(2, 6)
        case, kinds = gen_batch(rng, n, hostile=False)
        T = len(case['cats'])
        doc = [[Token(word=w) for w in words] for words, _, _ in case['sentences']]
        scores = [ScoringResult(t.copy(), d.copy()) for _, t, d in case['sentences']]
        cats = list(case['cats'])
        k = rng.randrange(n)
        m = len(doc[k])
        mode = rng.choice(('tag-width', 'tag-rows', 'dep-shape', 'dep-square', 'doc-vs-scores', 'single-scores', 'dup-cats', 'cat-list-short',
                           'both-for-other-length', 'both-for-other-length', 'empty-misshaped', 'more-scores', 'extra-axis'))
        if mode == 'tag-width':
            scores[k] = ScoringResult(np.zeros((m, T + 1), dtype=np.float32), scores[k].dep_scores)
        elif mode == 'tag-rows':
            scores[k] = ScoringResult(np.zeros((m + 1, T), dtype=np.float32), scores[k].dep_scores)
        elif mode == 'dep-shape':
            scores[k] = ScoringResult(scores[k].tag_scores, np.zeros((m, m + 2), dtype=np.float32))
        elif mode == 'dep-square':
            scores[k] = ScoringResult(scores[k].tag_scores, np.zeros((m, m), dtype=np.float32))
        elif mode == 'empty-misshaped':
            k = rng.randrange(1, n)
            doc[k] = []
            scores[k] = ScoringResult(np.zeros((rng.choice((1, 2)), T), dtype=np.float32), np.zeros((0, rng.choice((2, 3))), dtype=np.float32))
        elif mode == 'both-for-other-length':
            d = rng.choice((-1, 1, 2)) if m > 1 else rng.choice((1, 2))
            scores[k] = ScoringResult(np.zeros((m + d, T), dtype=np.float32), np.zeros((m + d, m + d + 1), dtype=np.float32))
        elif mode == 'doc-vs-scores':
            scores = scores[:-1]
        elif mode == 'extra-axis':
            scores[k] = ScoringResult(scores[k].tag_scores[:, :, None].copy(), scores[k].dep_scores[:, :, None].copy())
        elif mode == 'more-scores':
            scores = scores + [scores[rng.randrange(n)] for _ in range(rng.choice((1, 1, 3)))]   # every leading pair fits
        elif mode == 'single-scores':
            scores = scores[0]
        elif mode == 'dup-cats':
            cats = cats + [cats[0]]
            scores = [ScoringResult(np.concatenate([s.tag_scores, s.tag_scores[:, :1]], axis=1), s.dep_scores) for s in scores]
        else:
            cats = cats[:-1]
        wit = {'mode': mode, 'sentence': k, 'case': search.case_to_json(case)}
        R.case(stable_hash((mode, k, wit['case'])), True)
        before = E.rt.parse_calls
        procs, chunk = (1, 10**6) if rng.random() < 0.8 else (2, 1)
        try:
            E.P.run(doc, scores, cats, list(case['roots']), case['binary'], case['unary'], processes=procs, max_chunk_size=chunk,
                    **case['config'])
        except Exception:
            if E.rt.parse_calls != before:
                R.violation('batch:shape-not-rejected', f'{mode}: rejected only after {E.rt.parse_calls - before} sentences had been parsed', wit)
            else:
                R.count('shape:rejected-before-parsing')
            continue
        R.violation('batch:shape-not-rejected', f'{mode}: inputs whose shapes do not fit were accepted', wit)
        if R.out_of_time():
            break


def replay(w, R):
    E = search.Engine(R, 'plain', None)
    case = search.case_from_json(w['case'])
    R.case('replay', True)
    out = E.run(case)
    print('error:', out['error'])
    if out['results']:
        for i, r in enumerate(out['results']):
            print(i, [float(s.score) for s in r][:3])

"""C19 — whatever the parser can return can be rendered in every offered format."""
import ast
import copy
import os

from vlib import env, treegen, codecs, fmtcheck
from vlib.checks import C07
from vlib.runner import shard_rng, stable_hash, Inconclusive

ID = 'C19'
LEVEL = 'exploration'
RULE = ('a case is (batch, format): batches over the shipped lexicons and unary tables built so that EVERY (label, symbol) the rule '
        'functions were observed to emit occurs in a rendered tree (histogram in the evidence), the failure placeholder obtained by '
        'actually running an unparseable sentence through the real search, and batches mixing both; every format of the language\'s '
        'CLI choice list (read from depccg/argparse.py) except the two ccg2lambda ones (nltk is not installed - stated gap) must '
        'render without an exception, and the other sentences of the batch must decode to the same derivations as when rendered '
        'alone. distinct = fingerprint of (batch, format); non-trivial = the batch mixes a placeholder with a parsed sentence, or a '
        'tree contains a unary node.')
ASSUMPTIONS = ['formats ccg2lambda and jigg_xml_ccg2lambda are NOT covered (nltk logic engine absent)',
               'placeholder comes from the real parsing.pyx executed by pyxlite']
REQUIRED_MONITORS = {'render:ok': 500, 'render:batches-with-placeholder': 100, 'render:nbest-alternatives': 20}
SKIP = ('ccg2lambda', 'jigg_xml_ccg2lambda')


def cli_formats():
    src = open(os.path.join(env.REPO, 'depccg', 'argparse.py'), encoding='utf-8').read()
    out = []
    for node in ast.walk(ast.parse(src)):
        if isinstance(node, ast.Call) and getattr(node.func, 'attr', '') == 'add_argument':
            args = [a.value for a in node.args if isinstance(a, ast.Constant)]
            if '--format' in args:
                for kw in node.keywords:
                    if kw.arg == 'choices':
                        out.append((getattr(node.func.value, 'id', ''), [e.value for e in kw.value.elts]))
    d = {}
    for name, choices in out:
        d['en' if 'english' in name else 'ja'] = [c for c in choices if c not in SKIP]
    return d


def prepare(tier, seed):
    from vlib import build
    build.build('plain')
    return {}


def shards(tier, seed):
    q = tier == 'quick'
    return [{'name': f'{lang}{k}', 'lang': lang, 'build': 'plain', 'cases': 60 if q else 4000, 'budget_s': 45 if q else 600}
            for lang in ('en', 'ja') for k in range(6)]


def real_placeholder():
    """run an unparseable sentence through the real search and take what comes back"""
    import random
    from vlib import pyxlite, synth
    import numpy as np
    pyxlite.load('plain')
    import depccg.parsing as P
    from depccg.types import Token, ScoringResult
    g = synth.TableGrammar({}, {})
    tag = np.zeros((2, 2), dtype=np.float32)
    dep = np.zeros((2, 3), dtype=np.float32)
    res = P.run([[Token(word='a'), Token(word='b')]], [ScoringResult(tag, dep)], [synth.SCat(0), synth.SCat(1)], [synth.SCat(0)],
                synth.BinaryFun(g), synth.UnaryFun(g), processes=1)
    # ... and what comes back for a sentence longer than max_length
    res2 = P.run([[Token(word='a'), Token(word='b')]], [ScoringResult(tag, dep)], [synth.SCat(0), synth.SCat(1)], [synth.SCat(0)],
                 synth.BinaryFun(g), synth.UnaryFun(g), processes=1, max_length=1)
    # ... and for a sentence whose step budget runs out with items still on the agenda
    g3, _ = synth.random_grammar(__import__('random').Random(5), 4, 2, density=1.0, max_results=1, unary_p=0.0)
    tag3 = np.zeros((4, 2), dtype=np.float32)
    dep3 = np.zeros((4, 5), dtype=np.float32)
    res3 = P.run([[Token(word=w) for w in 'abcd']], [ScoringResult(tag3, dep3)], [synth.SCat(0), synth.SCat(1)], [synth.SCat(3)],
                 synth.BinaryFun(g3), synth.UnaryFun(g3), processes=1, max_step=3)
    return res[0], res2[0], res3[0]


def run(spec, R):
    lang = spec['lang']
    # the order depccg/__main__.py uses: the printer package is imported first, the language is chosen afterwards
    env.install()
    env.stub_native_parsing()
    import depccg.printer  # noqa: F401
    env.install(lang)
    formats = cli_formats().get(lang)
    if not formats or len(formats) < 5:
        raise Inconclusive(f'could not read the CLI format list for {lang} from depccg/argparse.py')
    R.extra[f'cli_formats_{lang}'] = formats
    ph, ph_long, ph_budget = real_placeholder()
    if not (len(ph) == 1 and ph[0].tree.is_leaf):
        raise Inconclusive('the search did not return a placeholder for an unparseable sentence')
    R.sample({'placeholder': [str(ph[0].tree.cat), dict(ph[0].tree.token), ph[0].score]})
    from depccg.printer import to_string
    from depccg.tree import ScoredTree
    ix = treegen.index(lang)
    rng = shard_rng(ID, spec['seed'], spec['name'])
    labels = sorted(ix.labels)
    token_fn = (lambda r: treegen.en_token(r, 'all-en', 'all')) if lang == 'en' else (lambda r: treegen.ja_token(r, 'all'))
    rendered_labels = {}
    deep_chain(R, lang, formats, to_string, ix, rng, token_fn)
    plain_fn = token_fn

    def token_fn(r):
        # the command line splits a raw line at single blanks: two blanks in a row give a token whose word is empty
        t = plain_fn(r)
        if r.random() < 0.01:
            t['word'] = ''
            R.count('render:empty-word-tokens')
        return t
    for i in range(spec['cases']):
        # sentences: one per a chosen label, licensed trees, placeholder(s)
        sents = []
        kinds = []
        for _ in range(rng.randint(1, 3)):
            r = rng.random()
            if r < 0.35:
                sents.append(copy.deepcopy(rng.choice((ph, ph, ph_long, ph_budget))))
                kinds.append('placeholder')
            else:
                want = labels[(i + len(sents)) % len(labels)] if r < 0.8 else None
                try:
                    t = treegen.licensed_tree(rng, lang, token_fn, max_leaves=8, want_label=want)
                except LookupError:
                    t = treegen.licensed_tree(rng, lang, token_fn, max_leaves=8)
                sents.append([ScoredTree(t, -1.5)])
                kinds.append('parsed')
                if rng.random() < 0.3:
                    # an n-best list: further derivations of the same tokens (other supertags, other shapes)
                    for j in range(rng.randint(1, 2)):
                        try:
                            alt = treegen.licensed_tree(rng, lang, token_fn, max_leaves=len(t.tokens) + 2, tokens=t.tokens)
                        except LookupError:
                            break
                        sents[-1].append(ScoredTree(alt, -2.0 - j))
                        R.count('render:nbest-alternatives')
        if 'parsed' not in kinds:
            t = treegen.licensed_tree(rng, lang, token_fn, max_leaves=6)
            sents.append([ScoredTree(t, -0.5)])
            kinds.append('parsed')
        has_unary = False
        for s, k in zip(sents, kinds):
            if k == 'parsed':
                stack = [s[0].tree]
                while stack:
                    n = stack.pop()
                    if not n.is_leaf:
                        rendered_labels[(n.op_string, n.op_symbol)] = rendered_labels.get((n.op_string, n.op_symbol), 0) + 1
                        has_unary = has_unary or n.is_unary
                        stack.extend(n.children)
        mixed = 'placeholder' in kinds
        if mixed:
            R.count('render:batches-with-placeholder')
        dump = repr([[treegen.tree_dump(st.tree) for st in s] for s in sents])
        for fmt in formats:
            wit = {'lang': lang, 'format': fmt, 'kinds': kinds, 'batch': dump[:3000]}
            R.case(stable_hash((fmt, dump)), mixed or has_unary)
            try:
                text = to_string(copy.deepcopy(sents), format=(fmt + ' ').strip())
            except Exception as e:
                # which sentence is to blame?
                culprit = None
                for si, s in enumerate(sents):
                    try:
                        to_string(copy.deepcopy([s]), format=fmt)
                    except Exception:
                        culprit = kinds[si]
                        break
                R.violation(f'render:{fmt}:raises', f'to_string(format={fmt!r}) raised {e!r} (first sentence that fails alone: {culprit})', wit)
                continue
            R.count('render:ok')
            R.hist('rendered_formats', fmt)
            if fmt not in C07.DECODERS or "('word', '')" in dump:
                continue            # an empty word cannot be decoded from blank-separated text: rendering without an error is all that is asked
            try:
                recs = C07.DECODERS[fmt](text, lang)
            except Exception as e:
                if mixed:
                    R.hist('undecodable_with_placeholder', fmt)
                else:
                    R.violation(f'render:{fmt}:batch-poisoned', f'{fmt} output of a batch cannot be decoded: {e!r}', dict(wit, output=text[:1200]))
                continue
            if len(recs) != sum(len(s) for s in sents):
                R.violation(f'render:{fmt}:batch-poisoned', f'{len(recs)} records rendered for {len(sents)} sentences with '
                            f'{sum(len(s) for s in sents)} trees', dict(wit, output=text[:1200]))
                continue
            at = 0
            for si, (s, k) in enumerate(zip(sents, kinds)):
                mine, at = recs[at:at + len(s)], at + len(s)
                if k != 'parsed':
                    continue
                try:
                    alone = C07.DECODERS[fmt](to_string(copy.deepcopy([s]), format=fmt), lang)
                except Exception:
                    continue
                R.count('render:compared-with-standalone')
                if [strip(a['tree']) for a in alone] != [strip(r['tree']) for r in mine]:
                    R.violation(f'render:{fmt}:batch-poisoned', f'sentence {si + 1} renders differently inside the batch than alone',
                                dict(wit, output=text[:1200]))
        if R.out_of_time():
            break
    R.extra[f'labels_observed_from_rule_functions_{lang}'] = {f'{a} {b}': n for (a, b), n in ix.labels.items()}
    R.extra[f'labels_rendered_{lang}'] = {f'{a} {b}': n for (a, b), n in rendered_labels.items()}
    R.extra[f'labels_without_derivation_from_the_tag_inventory_{lang}'] = [f'{a} {b}' for a, b in ix.labels_unreachable]


def finish(merged, results, tier, seed, inconclusive):
    for lang in ('en', 'ja'):
        obs = merged['extra'].get(f'labels_observed_from_rule_functions_{lang}', {})
        ren = merged['extra'].get(f'labels_rendered_{lang}', {})
        missing = sorted(set(obs) - set(ren))
        merged['extra'][f'labels_not_rendered_{lang}'] = missing
        if not obs:
            inconclusive.append(f'no labels observed for {lang}')
        if missing:
            inconclusive.append(f'labels the rule functions emit but no rendered tree contained ({lang}): {missing}')


def deep_chain(R, lang, formats, to_string, ix, rng, token_fn):
    """a long sentence (well under max_length 250) whose derivation is a chain: must render under Python's default recursion limit"""
    import sys
    from depccg.tree import Tree, ScoredTree
    lab = sorted(l for l in ix.labels if l[1] not in ('<un>',) and not l[0].startswith('AD'))[0]
    cats = ix.inventory
    for shape in ('right', 'left'):
        n = 170
        t = Tree.make_terminal(token_fn(rng), rng.choice(cats))
        for _ in range(n - 1):
            leaf = Tree.make_terminal(token_fn(rng), rng.choice(cats))
            kids = (leaf, t) if shape == 'right' else (t, leaf)
            t = Tree.make_binary(rng.choice(cats), kids[0], kids[1], lab[0], lab[1], lang == 'en')
        batch = [[ScoredTree(t, -3.0)]]
        for fmt in formats:
            R.case(('deep-chain', shape, fmt), True)
            old = sys.getrecursionlimit()
            sys.setrecursionlimit(1000)
            try:
                to_string(batch, format=fmt)
                R.count('render:deep-chain-ok')
            except RecursionError as e:
                R.violation(f'render:{fmt}:raises', f'{fmt}: a {n}-word sentence with a {shape}-branching derivation cannot be rendered under the '
                            f'default recursion limit: {e!r}', {'lang': lang, 'format': fmt, 'shape': shape, 'words': n})
            except Exception as e:
                R.violation(f'render:{fmt}:raises', f'{fmt}: deep chain raised {e!r}', {'lang': lang, 'format': fmt, 'shape': shape})
            finally:
                sys.setrecursionlimit(old)


def strip(node):
    """decoded tree without position-dependent attributes"""
    if node['k'] == 'L':
        return ('L', node['cat'], node['word'], tuple(sorted((k, str(v)) for k, v in node['attrs'].items() if k not in ('id',))))
    if node['k'] == 'U':
        return ('U', node['cat'], node.get('label'), strip(node['child']))
    return ('B', node['cat'], node.get('label'), node.get('head_left'), strip(node['l']), strip(node['r']))

"""C15 — XML formats round-trip; a Jigg XML sentence is self-contained for ccg2lambda
(real to_string(xml) -> real read_xml; real to_string(jigg_xml) [ja] -> real read_jigg_xml; integrity monitor on every
to_jigg_xml output; real build_ccg_tree / normalize_tokens on it)."""
import copy
import os
import tempfile

from lxml import etree

from vlib import env, treegen, codecs, fmtcheck
from vlib.runner import shard_rng, stable_hash

ID = 'C15'
LEVEL = 'exploration'
RULE = ('a case is a batch (1-4 sentences x 1-3 n-best trees; licensed derivations and arbitrary well-formed trees; tokens over '
        'XML-representable printable text incl. < > & quotes brackets CJK). English: C&C XML written by the real to_string and read '
        'by the real read_xml (shape, categories, token attributes, rule labels: a binary node the grammar derives must carry a label '
        'the grammar gives that category, a unary node the label written in the file). Japanese: Jigg XML read by the real '
        'read_jigg_xml (categories, shape, words). Every Jigg document (both languages, all n-best lists): ids unique, references '
        'resolve, one root, offsets tile; real build_ccg_tree isomorphic to the derivation with category/rule attributes; real '
        'normalize_tokens yields _-prefixed names free of . , ( ) ! -. distinct = fingerprint of (batch, route); non-trivial = a tree '
        'with >= 2 leaves.')
ASSUMPTIONS = ['"logic punctuation" = the characters the normaliser exists to remove: . , ( ) ! - (and a lone & or -)',
               'labels are compared only where the file/grammar determine them (see rule)']
REQUIRED_MONITORS = {'read_xml:after-jigg-export': 30, 'read_xml:trees': 150, 'read_jigg_xml:trees': 150, 'jigg:documents-checked': 150,
                     'ccg2lambda:trees-built': 300, 'ccg2lambda:tokens-normalised': 500, 'read_xml:unary-labels-compared': 20}


def shards(tier, seed):
    q = tier == 'quick'
    return [{'name': f'{lang}{k}', 'lang': lang, 'cases': 100 if q else 8000, 'budget_s': 45 if q else 600}
            for lang in ('en', 'ja') for k in range(6)]


def safe(x):
    try:
        return str(x)
    except Exception as e:
        return f'<unprintable {e!r}>'


def compare_read(src, got, lang, ix, labels, path='root'):
    out = []
    if src.is_leaf != got.is_leaf or len(src.children) != len(got.children):
        return [('shape', f'{path}: shape differs')]
    if not (src.cat == got.cat):
        out.append(('category', f'{path}: category {safe(got.cat)}, expected {src.cat!s}'))
    if src.is_leaf:
        return out
    if labels:
        if src.is_unary:
            labels['unary'] += 1
            if got.op_string != src.op_string:
                out.append(('label', f'{path}: unary node read back with label {got.op_string!r}, the file says {src.op_string!r}'))
        else:
            cands = [r for r in ix.binary(src.children[0].cat, src.children[1].cat) if r.cat == src.cat]
            if cands:
                labels['binary'] += 1
                if not any(r.op_string == got.op_string and r.op_symbol == got.op_symbol for r in cands):
                    out.append(('label', f'{path}: binary node {src.cat!s} read back with label ({got.op_string}, {got.op_symbol}); '
                                f'the grammar derives it with {[(r.op_string, r.op_symbol) for r in cands]}'))
    for i, (a, b) in enumerate(zip(src.children, got.children)):
        out += compare_read(a, b, lang, ix, labels, f'{path}/{i}')
    return out


def iso(node, el, lang, sid, counter, path='root'):
    """derivation node vs element built by ccg2lambda's build_ccg_tree"""
    out = []
    if el.get('category') != fmtcheck.jigg_cat(node.cat):
        out.append(('tree', f'{path}: category {el.get("category")!r}, expected {fmtcheck.jigg_cat(node.cat)!r}'))
    if node.is_leaf:
        want = f's{sid}_{counter[0]}'
        counter[0] += 1
        if el.get('terminal') != want or len(el):
            out.append(('tree', f'{path}: terminal {el.get("terminal")!r} with {len(el)} children, expected {want!r}'))
        return out
    want_rule = node.op_symbol if lang == 'ja' else node.op_string
    if el.get('rule') != want_rule:
        out.append(('rule', f'{path}: rule {el.get("rule")!r}, expected {want_rule!r}'))
    if len(el) != len(node.children):
        return out + [('tree', f'{path}: {len(el)} children, expected {len(node.children)}')]
    for i, (c, e) in enumerate(zip(node.children, el)):
        out += iso(c, e, lang, sid, counter, f'{path}/{i}')
    return out


BAD = set('.,()!-')


def run(spec, R):
    lang = spec['lang']
    env.install(lang)
    env.stub_native_parsing()
    from depccg.printer import to_string
    from depccg.tools.reader import read_xml, read_jigg_xml
    from depccg.semantics.ccg2lambda.ccg2lambda_tools import build_ccg_tree, normalize_tokens
    ix = treegen.index(lang)
    rng = shard_rng(ID, spec['seed'], spec['name'])
    tmp = tempfile.mkdtemp(prefix='verif-c15-')
    path = os.path.join(tmp, 'x.xml')
    labels = {'unary': 0, 'binary': 0}
    try:
        for i in range(spec['cases']):
            batch = treegen.make_batch(rng, lang, 'any' if lang == 'en' else 'ja')
            flat = [st for trees in batch for st in trees]
            if lang == 'en' and rng.random() < 0.2:
                for trees in batch:
                    for tok in trees[0].tree.tokens:
                        if rng.random() < 0.3:
                            tok[rng.choice(('entity', 'chunk', 'lemma'))] = ''          # an empty attribute value is legal XML
            wit = {'lang': lang, 'batch': repr([treegen.tree_dump(st.tree) for st in flat])[:3000]}
            nontriv = any(len(st.tree.leaves) >= 2 for st in flat)
            # ---------- (a) C&C XML, English
            if lang == 'en':
                R.case(stable_hash(('xml', wit['batch'])), nontriv)
                try:
                    work = copy.deepcopy(batch)
                    if i % 3 == 1:
                        # the same result objects were exported to Jigg XML before (a user may ask for both in one process)
                        try:
                            to_string(work, format='jigg_xml')
                            R.count('read_xml:after-jigg-export')
                        except Exception:
                            work = copy.deepcopy(batch)
                    text = to_string(work, format='xml')
                    with open(path, 'w', encoding='utf-8') as f:
                        f.write(text)
                    read = list(read_xml(path))
                except Exception as e:
                    R.violation('read_xml:raises', f'xml write/read raised {e!r}', wit)
                    read = None
                if read is not None:
                    if len(read) != len(flat):
                        R.violation('read_xml:shape', f'{len(read)} trees read from {len(flat)} written', wit)
                    else:
                        for st, rr in zip(flat, read):
                            R.count('read_xml:trees')
                            for kind, msg in compare_read(st.tree, rr.tree, lang, ix, labels)[:2]:
                                R.violation(f'read_xml:{kind}', msg, dict(wit, text=text[:1500]))
                            want = [{k: t.get(k) for k in ('word', 'pos', 'entity', 'lemma', 'chunk')} for t in st.tree.tokens]
                            got = [{k: t.get(k) for k in ('word', 'pos', 'entity', 'lemma', 'chunk')} for t in rr.tokens]
                            if want != got or [dict(l.token) for l in rr.tree.leaves] != [dict(t) for t in rr.tokens]:
                                R.violation('read_xml:attribute', f'token attributes read back as {got[:2]}, written {want[:2]}',
                                            dict(wit, text=text[:1500]))
            # ---------- jigg xml (both languages): integrity + ccg2lambda; (b) reader for Japanese
            R.case(stable_hash(('jigg', wit['batch'])), nontriv)
            try:
                jtext = to_string(copy.deepcopy(batch), format='jigg_xml')
            except Exception as e:
                R.violation('jigg_xml:raises', f'to_string(jigg_xml) raised {e!r}', wit)
                continue
            try:
                recs, problems = codecs.decode_jigg(jtext)
            except Exception as e:
                R.violation('jigg_xml:undecodable', f'jigg xml cannot be decoded: {e!r}', dict(wit, text=jtext[:1500]))
                continue
            R.count('jigg:documents-checked')
            for p in problems[:3]:
                kind = ('duplicate-id' if 'duplicate' in p else 'dangling-ref' if 'dangling' in p or 'resolve' in p
                        else 'root-count' if 'root' in p else 'offsets')
                R.violation(f'jigg:{kind}', p, dict(wit, text=jtext[:2000]))
            root = etree.fromstring(jtext.encode('utf-8'))
            sents = root.findall('./document/sentences/sentence')
            for si, (sent, trees) in enumerate(zip(sents, batch)):
                ccgs = sent.findall('./ccg')
                if len(ccgs) != len(trees):
                    R.violation('jigg:root-count', f'sentence {si}: {len(ccgs)} ccg elements for {len(trees)} trees', wit)
                    continue
                for ccg, st in zip(ccgs, trees):
                    try:
                        built = build_ccg_tree(ccg)
                    except Exception as e:
                        R.violation('ccg2lambda:tree', f'build_ccg_tree raised {e!r}', dict(wit, text=jtext[:2000]))
                        continue
                    R.count('ccg2lambda:trees-built')
                    if built is None:
                        R.violation('ccg2lambda:tree', 'build_ccg_tree returned None', dict(wit, text=jtext[:2000]))
                        continue
                    for kind, msg in iso(st.tree, built, lang, si, [0])[:2]:
                        R.violation(f'ccg2lambda:{kind}', msg, dict(wit, text=jtext[:2000]))
                toks = copy.deepcopy(sent.find('./tokens'))
                before = [dict(t.attrib) for t in toks]
                try:
                    normalize_tokens(toks)
                except Exception as e:
                    R.violation('ccg2lambda:token-normalisation', f'normalize_tokens raised {e!r}', wit)
                    continue
                for t, b in zip(toks, before):
                    for attr in ('surf', 'base'):
                        v = t.get(attr)
                        if v is None:
                            continue
                        R.count('ccg2lambda:tokens-normalised')
                        orig = b.get(attr)
                        if attr == 'base' and orig == '*':
                            orig = b.get('surf', '*')
                        lone = {'&': '_AMPERSAND', '-': '_HYPHEN'}.get(orig)
                        if not v.startswith('_') or (set(v) & BAD) or (lone is not None and v != lone):
                            R.violation('ccg2lambda:token-normalisation',
                                        f'token attribute {attr}={orig!r} became {v!r} after normalize_tokens: still carries logic '
                                        f'punctuation (or lacks the _ prefix)', dict(wit, attr=attr, value=v, original=orig))
            variants = [('plain', jtext)] if lang == 'ja' else []
            if lang == 'ja' and rng.random() < 0.3:
                # the same document after ccg2lambda's semantic parser has run over it (parse.py: every sentence gets one <semantics>
                # element per tree, holding copies of its spans reduced to id/child/sem/type): still the Jigg XML of the derivation
                sroot = etree.fromstring(jtext.encode('utf-8'))
                for sent in sroot.iter('sentence'):
                    sems = []
                    for ccg in sent.findall('ccg'):
                        sem = etree.Element('semantics', status='success', ccg_id=ccg.get('id'), root=ccg.get('root'))
                        for span in ccg.findall('span'):
                            sp = etree.SubElement(sem, 'span', id=span.get('id'), sem='_x')
                            if span.get('child') is not None:
                                sp.set('child', span.get('child'))
                        sems.append(sem)
                    sent.extend(sems)
                variants.append(('with-semantics', etree.tostring(sroot, encoding='unicode')))
                R.count('read_jigg_xml:documents-with-semantics')
            for variant, vtext in variants:
                try:
                    with open(path, 'w', encoding='utf-8') as f:
                        f.write(vtext)
                    read = list(read_jigg_xml(path))
                except Exception as e:
                    R.violation('read_jigg_xml:raises', f'read_jigg_xml raised {e!r} ({variant})', dict(wit, text=vtext[:1500]))
                    continue
                if len(read) != len(flat):
                    R.violation('read_jigg_xml:shape', f'{len(read)} trees read from {len(flat)} written ({variant})', wit)
                    continue
                for st, rr in zip(flat, read):
                    R.count('read_jigg_xml:trees')
                    for kind, msg in compare_read(st.tree, rr.tree, lang, ix, None)[:2]:
                        R.violation(f'read_jigg_xml:{kind}', msg, dict(wit, text=jtext[:1500]))
                    gw = [l.token.get('word') for l in rr.tree.leaves]
                    if gw != [t['word'] for t in st.tree.tokens]:
                        R.violation('read_jigg_xml:words', f'words read back as {gw}', dict(wit, text=jtext[:1500]))
            if i < 1:
                R.sample({'lang': lang, 'jigg_xml': jtext[:500]})
            if R.out_of_time():
                break
    finally:
        import shutil
        shutil.rmtree(tmp, ignore_errors=True)
    R.count('read_xml:unary-labels-compared', labels['unary'])
    R.count('read_xml:binary-labels-compared', labels['binary'])

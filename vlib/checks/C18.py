"""C18 — printing is an observation: it changes nothing and is repeatable."""
import copy

from vlib import env, treegen, refcat
from vlib.runner import shard_rng, stable_hash

ID = 'C18'
LEVEL = 'exploration'
RULE = ('a case is (batch, sequence of 2-6 renderings with repeats) applied to the SAME result objects: formats of the language\'s '
        'CLI list through the real to_string and the per-format functions (auto_of, xml_of, to_jigg_xml, conll_of, json_of, ptb_of, '
        'deriv_of, to_mathml, to_prolog_*, ja_of); monitors: deep fingerprint of the object graph (identities, fields, token items in '
        'order, categories) before/after every rendering, and every output equal to the output of the same rendering on a deep copy '
        'taken before any rendering; plus, in pairs of fresh processes, the same results rendered in all formats in one order and in '
        'the reverse order (what a process renders first must not decide what it renders later). distinct = fingerprint of (batch, sequence); non-trivial = sequence has >= 2 renderings and the '
        'batch a tree with >= 2 leaves.')
ASSUMPTIONS = ['fingerprint covers Tree/Token/Category objects reachable from the result lists']
REQUIRED_MONITORS = {'fingerprint:compared': 500, 'output:compared-with-fresh-copy': 500, 'firstuse:process-pairs-compared': 4}
FORMATS = {
    'en': ('auto', 'auto_extended', 'xml', 'jigg_xml', 'conll', 'json', 'ptb', 'deriv', 'html', 'prolog', 'ja'),
    'ja': ('auto', 'deriv', 'ja', 'conll', 'html', 'jigg_xml', 'ptb', 'json', 'prolog'),
}


def shards(tier, seed):
    q = tier == 'quick'
    return [{'name': f'{lang}{k}', 'lang': lang, 'cases': 120 if q else 6000, 'budget_s': 45 if q else 600}
            for lang in ('en', 'ja') for k in range(6)] + \
           [{'name': f'firstuse-{lang}', 'kind': 'firstuse', 'lang': lang, 'cases': 4 if q else 60, 'budget_s': 60 if q else 600}
            for lang in ('en', 'ja')]


def fingerprint(batch):
    out = []
    from depccg.lang import get_global_language
    out.append(('global-language', get_global_language()))          # printing must not change the session either
    out.append(('batch', id(batch), [id(x) for x in batch]))
    for trees in batch:
        out.append(('sentence', id(trees), [(id(st), id(st.tree), st.score) for st in trees]))
        for st in trees:
            stack = [st.tree]
            while stack:
                n = stack.pop()
                kids = n.children
                extra = tuple(sorted((k, repr(v)) for k, v in vars(n).items() if k not in ('cat', 'children', 'op_string', 'op_symbol', 'head_is_left')))
                if isinstance(kids[0], dict):
                    tok = kids[0]
                    out.append(('leaf', id(n), id(kids), id(tok), type(tok).__name__, list(tok.items()), id(n.cat), refcat.to_ref(n.cat),
                                n.op_string, n.op_symbol, n.head_is_left, extra))
                else:
                    out.append(('node', id(n), id(kids), [id(k) for k in kids], id(n.cat), refcat.to_ref(n.cat), n.op_string,
                                n.op_symbol, n.head_is_left, extra))
                    stack.extend(kids)
    return out


def renderers(lang):
    from depccg.printer import to_string
    from depccg.printer.auto import auto_of, auto_extended_of
    from depccg.printer.xml import xml_of
    from depccg.printer.jigg_xml import to_jigg_xml
    from depccg.printer.conll import conll_of
    from depccg.printer.my_json import json_of
    from depccg.printer.ptb import ptb_of
    from depccg.printer.deriv import deriv_of
    from depccg.printer.html import to_mathml
    from depccg.printer.prolog import to_prolog_en, to_prolog_ja
    from depccg.printer.ja import ja_of
    from lxml import etree
    out = {}
    for f in FORMATS[lang]:
        # the format name arrives as a fresh string object each time (as from a command line or a configuration file)
        out[f'to_string:{f}'] = (lambda b, f=f: to_string(b, format=(f + ' ').strip()))
    per_tree = {'auto_of': auto_of, 'conll_of': conll_of, 'ptb_of': ptb_of, 'deriv_of': deriv_of, 'ja_of': ja_of,
                'json_of': lambda t: repr(json_of(t))}
    if lang == 'en':
        per_tree['auto_extended_of'] = auto_extended_of
    for name, fn in per_tree.items():
        out[name] = (lambda b, fn=fn: '\n'.join(fn(st.tree) for trees in b for st in trees))
    out['xml_of'] = lambda b: etree.tostring(xml_of(b)).decode()
    out['to_jigg_xml'] = lambda b: etree.tostring(to_jigg_xml(b, use_symbol=lang == 'ja')).decode()
    out['to_mathml'] = lambda b: to_mathml(b)
    out['to_prolog'] = (lambda b: to_prolog_en(b)) if lang == 'en' else (lambda b: to_prolog_ja(b))
    return out


CLOCK = ("import time as _time, datetime as _dt\n"
         "_off = %r\n"
         "_t, _lt, _gm, _sf, _ct = _time.time, _time.localtime, _time.gmtime, _time.strftime, _time.ctime\n"
         "_time.time = lambda: _t() + _off\n"
         "_time.localtime = lambda s=None: _lt(_t() + _off if s is None else s)\n"
         "_time.gmtime = lambda s=None: _gm(_t() + _off if s is None else s)\n"
         "_time.strftime = lambda f, t=None: _sf(f, _lt(_t() + _off) if t is None else t)\n"
         "_time.ctime = lambda s=None: _ct(_t() + _off if s is None else s)\n"
         "class _D(_dt.datetime):\n"
         "    @classmethod\n"
         "    def now(cls, tz=None): return _dt.datetime.fromtimestamp(_t() + _off, tz)\n"
         "    @classmethod\n"
         "    def today(cls): return _dt.datetime.fromtimestamp(_t() + _off)\n"
         "    @classmethod\n"
         "    def utcnow(cls): return _dt.datetime.utcfromtimestamp(_t() + _off)\n"
         "class _Dd(_dt.date):\n"
         "    @classmethod\n"
         "    def today(cls): return _dt.date.fromtimestamp(_t() + _off)\n"
         "_dt.datetime, _dt.date = _D, _Dd\n")

CHILD = ("import sys, json, pickle, copy; sys.path.insert(0, %r); sys.setrecursionlimit(20000)\n"
         "from vlib import env; env.install(%r); env.stub_native_parsing()\n"
         "from vlib.checks import C18\n"
         "rend = C18.renderers(%r); batch = pickle.load(open(%r, 'rb')); out = {}\n"
         "for name in %r:\n"
         "    try:\n"
         "        out[name] = rend[name](copy.deepcopy(batch))\n"
         "    except Exception as e:\n"
         "        out[name] = 'raised ' + repr(e)\n"
         "print(json.dumps(out))\n")


def run_firstuse(spec, R):
    """state a printer module keeps for the life of the process (memo tables, counters) is invisible to comparisons made
    inside that process; here each order of formats gets a fresh interpreter and the outputs are compared across them"""
    import json
    import os
    import pickle
    import subprocess
    import sys
    import tempfile
    lang = spec['lang']
    env.install(lang)
    env.stub_native_parsing()
    names = sorted(renderers(lang))
    rng = shard_rng(ID, spec['seed'], spec['name'])
    tmp = tempfile.mkdtemp(prefix='verif-c18-')
    path = os.path.join(tmp, 'batch.pkl')
    try:
        for i in range(spec['cases']):
            batch = treegen.make_batch(rng, lang, 'all', max_sentences=4, max_nbest=2, attr_domain='all')
            # every kind of word the printers rewrite occurs at least once
            from depccg.types import Token
            toks = [t for trees in batch for t in trees[0].tree.tokens]
            for t, w in zip(rng.sample(toks, min(len(toks), 4)), rng.sample(treegen.BRACKET_WORDS + ['<', '>', 'a<b', "'", 'x\\y'], 4)):
                t['word'] = w          # representable or not: only outputs are compared with outputs here
            with open(path, 'wb') as f:
                pickle.dump(batch, f)
            order = names[:]
            rng.shuffle(order)
            dump = repr([[treegen.tree_dump(st.tree) for st in t] for t in batch])
            R.case(stable_hash((order, dump)), True)
            outs = []
            for o, shift in ((order, 0), (order[::-1], 26 * 3600 + 61)):
                # the second process also believes it runs a day later: an output must not depend on when it is produced
                r = subprocess.run([sys.executable, '-c', CLOCK % shift + CHILD % (env.VERIF, lang, lang, path, o)], capture_output=True, text=True,
                                   env=dict(os.environ, PYTHONWARNINGS='ignore'), timeout=300)
                try:
                    outs.append(json.loads(r.stdout.strip().split('\n')[-1]))
                except Exception:
                    outs.append(None)
            if outs[0] is None or outs[1] is None:
                R.count('firstuse:child-failed')
                continue
            R.count('firstuse:process-pairs-compared')
            for name in names:
                if outs[0].get(name) != outs[1].get(name):
                    R.violation('print:output-changes', f'{name} renders the same results differently in a fresh process when the formats '
                                f'are first used in the reverse order', {'lang': lang, 'order': order, 'format': name, 'batch': dump[:3000],
                                                                        'got': str(outs[0].get(name))[:600], 'want': str(outs[1].get(name))[:600]})
                    break
            if R.out_of_time():
                break
    finally:
        import shutil
        shutil.rmtree(tmp, ignore_errors=True)


def run(spec, R):
    if spec.get('kind') == 'firstuse':
        return run_firstuse(spec, R)
    lang = spec['lang']
    env.install(lang)
    env.stub_native_parsing()
    rend = renderers(lang)
    names = sorted(rend)
    rng = shard_rng(ID, spec['seed'], spec['name'])
    for i in range(spec['cases']):
        batch = treegen.make_batch(rng, lang, 'all', max_sentences=3, max_nbest=3, attr_domain='all')
        if rng.random() < 0.3:
            # tokens as other producers make them: only a word (the failure placeholder, read_ptb), or with additional keys
            from depccg.types import Token
            for trees in batch:
                mode = rng.random()
                for tok in trees[0].tree.tokens:
                    if mode < 0.5:
                        w = tok['word']
                        tok.clear()
                        tok['word'] = w
                    elif rng.random() < 0.3:
                        tok[rng.choice(('start', 'span', 'extra'))] = rng.choice(('7', 'x'))
        pristine = copy.deepcopy(batch)
        seq = [rng.choice(names) for _ in range(rng.randint(2, 6))]
        if rng.random() < 0.5:
            seq[rng.randrange(1, len(seq))] = seq[0]          # a repeat
        dump = repr([[treegen.tree_dump(st.tree) for st in t] for t in batch])
        wit = {'lang': lang, 'sequence': seq, 'batch': dump[:3000]}
        R.case(stable_hash((seq, dump)), any(len(st.tree.leaves) >= 2 for t in batch for st in t))
        R.hist('renderings', 'sequences')
        # reference outputs are taken up-front, then a larger unrelated batch is rendered in the same formats:
        # state kept by a printer between calls must not leak into later renderings of these results
        reference = {}
        from depccg.lang import get_global_language, set_global_language_to
        for name in sorted(set(seq)):
            try:
                reference[name] = rend[name](copy.deepcopy(pristine))
            except Exception:
                reference[name] = None
            if get_global_language() != lang:
                R.violation('print:mutates-objects', f'{name} changed the session language from {lang!r} to {get_global_language()!r}',
                            dict(wit, step='reference'))
                set_global_language_to(lang)
        other = treegen.make_batch(rng, lang, 'all', max_sentences=5, max_nbest=3, attr_domain='all')
        while len(other) <= len(batch):
            other = other + treegen.make_batch(rng, lang, 'all', max_sentences=2, max_nbest=2, attr_domain='all')
        for name in set(seq):
            try:
                rend[name](other)
            except Exception:
                pass
        for k, name in enumerate(seq):
            before = fingerprint(batch)
            try:
                got = rend[name](batch)
            except Exception as e:
                # is it the rendering that cannot cope, or an earlier rendering that damaged the objects?
                try:
                    rend[name](copy.deepcopy(pristine))
                    R.violation('print:output-changes', f'{name} raised {e!r} after {seq[:k]} on the same objects, but renders a fresh copy',
                                dict(wit, step=k))
                except Exception:
                    R.hist('foreign_violation_keys', f'render:{name}:raises')
                break
            R.count('fingerprint:compared')
            after = fingerprint(batch)
            if after != before:
                diff = next((a, b) for a, b in zip(before, after) if a != b) if len(before) == len(after) else ('length', len(before), len(after))
                R.violation('print:mutates-objects', f'{name} changed the result objects: {str(diff)[:400]}', dict(wit, step=k))
                break
            try:
                want = rend[name](copy.deepcopy(pristine))
            except Exception:
                break
            R.count('output:compared-with-fresh-copy')
            R.hist('renderings', name)
            if reference.get(name) is not None and got != reference[name]:
                R.violation('print:output-changes', f'{name} gives a different output than the same rendering of the same results gave '
                            f'before other results were rendered in this process', dict(wit, step=k, got=got[:600], want=reference[name][:600]))
                break
            if got != want:
                R.violation('print:output-changes', f'{name} after {seq[:k]} on the same objects differs from {name} on a fresh copy',
                            dict(wit, step=k, got=got[:600], want=want[:600]))
                break
        else:
            # the same result objects arranged differently (a slice, a reordered n-best list): nothing a printer remembered about
            # their earlier positions may show
            re_b = [list(reversed(t)) for t in reversed(batch)]
            re_p = [list(reversed(t)) for t in reversed(copy.deepcopy(pristine))]
            for name in sorted(set(seq)):
                try:
                    got, want = rend[name](re_b), rend[name](re_p)
                except Exception:
                    continue
                R.count('output:rearranged-compared')
                if got != want:
                    R.violation('print:output-changes', f'{name} of the same results in another arrangement differs from {name} of a fresh '
                                f'copy in that arrangement', dict(wit, step='rearranged', got=got[:600], want=want[:600]))
                    break
        # the same format named by another string object with the same text
        f = rng.choice(FORMATS[lang])
        try:
            from depccg.printer import to_string
            a, b = to_string(copy.deepcopy(pristine), format=f), to_string(copy.deepcopy(pristine), format=(f + ' ').strip())
            R.count('output:format-name-object-compared')
            if a != b:
                R.violation('print:output-changes', f'format {f!r} renders differently when its name is another string object with the '
                            f'same text', dict(wit, step='format-name', got=b[:600], want=a[:600]))
        except Exception:
            pass
        if i < 2:
            R.sample({'lang': lang, 'sequence': seq})
        if R.out_of_time():
            break

"""C04 — Japanese combinatory rules are sound; unary labels follow the input's shape
(contracts on the real ja.apply_binary_rules / ja.apply_unary_rules; reference in vlib/schemas_ja.py)."""
from vlib import env, gens, refcat, contracts, schemas_ja, refunify
from vlib.runner import shard_rng

ID = 'C04'
LEVEL = 'exploration'
RULE = ('binary: ordered pairs given to the real ja.apply_binary_rules — pairs of the shipped Japanese inventory, every shipped '
        'seen-rule pair, pairs with results of earlier calls (closure), and instantiations of the eleven schemas over feature '
        'triples (values incl. X1..X3) with perturbed triples/slashes; unary: every left-hand side of the shipped unary table and '
        'synthetic inputs of shapes S, S\\NP, (S\\NP)\\NP, ((S\\NP)\\NP)\\NP, NP with mod in {adn, adv, nm}. distinct = fingerprint '
        'of the input(s); non-trivial = the call returned at least one result.')
ASSUMPTIONS = ['schema table in vlib/schemas_ja.py states the property; every S/NP atom carries a feature triple',
               'unary labels are judged for backward-slash shapes rooted in S (and NP[mod=adv] -> ADV0); others are not judged']
REQUIRED_MONITORS = {'contract:ja.apply_binary_rules': 2000, 'contract:ja:result-justified': 1000,
                     'contract:ja:unary-label-judged': 100}
SYMBOLS = list(schemas_ja.ROWS) + ['SSEQ']


def shards(tier, seed):
    q = tier == 'quick'
    out = [{'name': f'schema{k}', 'kind': 'schema', 'cases': 6000 if q else 250000, 'budget_s': 50 if q else 600} for k in range(8)]
    out += [{'name': f'inv{k}', 'kind': 'inv', 'k': k, 'n': 5, 'cases': 9000 if q else 10**9, 'budget_s': 50 if q else 600} for k in range(5)]
    out += [{'name': 'seen', 'kind': 'seen', 'budget_s': 60 if q else 600},
            {'name': 'closure', 'kind': 'closure', 'cases': 6000 if q else 300000, 'budget_s': 50 if q else 600},
            {'name': 'repotests', 'kind': 'repotests', 'budget_s': 300},
            {'name': 'unary', 'kind': 'unary', 'cases': 3000 if q else 100000, 'budget_s': 50 if q else 300}]
    return out


def call(x, y, R, sample=False):
    from depccg.grammar import ja
    X, Y = refcat.from_ref(x), refcat.from_ref(y)
    try:
        res = ja.apply_binary_rules(X, Y)
    except Exception as e:
        R.case((x, y), True)
        R.violation('ja:raises', f'apply_binary_rules raised {e!r}', {'x': refcat.ref_print(x), 'y': refcat.ref_print(y)})
        return []
    R.case((x, y), bool(res))
    if sample and res:
        R.sample({'x': refcat.ref_print(x), 'y': refcat.ref_print(y),
                  'results': [[str(r.cat), r.op_string, r.op_symbol, r.head_is_left] for r in res]})
    return res


VALUES = ('X1', 'X2', 'X3', 'nm', 'adn', 'adv', 'f', 't', 'ga', 'o', 'ni', 'nc', 'base', 'cont')


def perturb_triples(v, rng, p):
    if v[0] == 'A':
        if v[2] is not None and rng.random() < p:
            kvs = list(v[2][1])
            i = rng.randrange(3)
            kvs[i] = (kvs[i][0], rng.choice(VALUES))
            return ('A', v[1], ('T', tuple(kvs)))
        return v
    s = v[2]
    if rng.random() < p * 0.3:
        s = rng.choice('/\\|')
    return ('F', perturb_triples(v[1], rng, p), s, perturb_triples(v[3], rng, p))


def schema_case(rng, atoms):
    sym = rng.choice(SYMBOLS)
    if sym == 'SSEQ':
        x, y = rng.choice(schemas_ja.ROOTS), rng.choice(schemas_ja.ROOTS)
        if rng.random() < 0.3:
            y = perturb_triples(y, rng, 1.0)
        return x, y
    px, py = schemas_ja.ROW_PATTERNS[sym]
    vars_ = set(refunify.pattern_vars(px) + refunify.pattern_vars(py))
    assign = {v: gens.random_value(rng, atoms, rng.choice((1, 1, 1, 2, 2, 3, 4, 5)), slashes=('/', '\\')) for v in sorted(vars_)}
    if rng.random() < 0.25:
        assign['a'] = assign['b']                      # modifier
    a2 = dict(assign)
    if rng.random() < 0.55:
        a2['b'] = perturb_triples(assign['b'], rng, 0.6)

    def inst(p, asg):
        if p[0] == 'A':
            return asg[p[1]]
        s = p[2]
        if s == '|':
            s = rng.choice('/\\\\|')
        elif rng.random() < 0.05:
            s = '|'
        return ('F', inst(p[1], asg), s, inst(p[3], asg))
    x, y = inst(px, assign), inst(py, a2)
    r = rng.random()
    if r < 0.12:
        x = perturb_triples(x, rng, 0.25)
    elif r < 0.24:
        y = perturb_triples(y, rng, 0.25)
    return x, y


def unary_inputs(rng, n):
    S = lambda m, form='base', fin='f': ('A', 'S', ('T', (('mod', m), ('form', form), ('fin', fin))))     # noqa: E731
    NP = lambda c='ga', m='nm': ('A', 'NP', ('T', (('case', c), ('mod', m), ('fin', 'f'))))               # noqa: E731
    out = []
    for _ in range(n):
        m = rng.choice(('adn', 'adv', 'adn', 'adv', 'nm'))
        head = S(m, rng.choice(('base', 'attr', 'cont', 'stem', 'hyp')), rng.choice('ft'))
        k = rng.choice((0, 0, 1, 1, 2, 2, 3))
        v = head
        for _ in range(k):
            # the label follows the clause (the head atom); what an argument carries is irrelevant
            v = ('F', v, '\\', NP(rng.choice(('ga', 'o', 'ni', 'to')), rng.choice(('nm', 'nm', 'adn', 'adv'))))
        if rng.random() < 0.08:
            v = NP('nc', rng.choice(('adv', 'adn', 'nm')))
        out.append(v)
    return out


def run(spec, R):
    env.install('ja')
    contracts.bind(R)
    contracts.install_unification_contracts()
    contracts.install_ja_contracts()
    from depccg.grammar import ja
    rng = shard_rng(ID, spec['seed'], spec['name'])
    kind = spec['kind']
    if kind == 'repotests':
        from vlib import repotests
        repotests.run_repo_tests(R, ['tests/grammar/test_ja.py'], lambda: None)
        return
    atoms = gens.ja_atoms()
    if kind == 'schema':
        for i in range(spec['cases']):
            x, y = schema_case(rng, atoms)
            call(x, y, R, sample=i % 500 == 0)
            if i % 128 == 0 and R.out_of_time():
                R.extra['cut_short'] = 1
                break
    elif kind == 'inv':
        vs = gens.inventory('ja')
        n = len(vs)
        R.extra['inventory_ja'] = n
        if spec['cases'] >= n * n:
            todo = [(vs[i], vs[j]) for i in range(n) for j in range(n) if (i * n + j) % spec['n'] == spec['k']]
        else:
            todo = [(rng.choice(vs), rng.choice(vs)) for _ in range(spec['cases'])]
        for i, (x, y) in enumerate(todo):
            call(x, y, R, sample=i % 3000 == 0)
            if i % 128 == 0 and R.out_of_time():
                R.extra['cut_short'] = 1
                break
    elif kind == 'seen':
        for i, (a, b) in enumerate(gens.seen_pairs('ja')):
            call(refcat.ref_parse(a), refcat.ref_parse(b), R, sample=i % 700 == 0)
            R.count('seen-pairs:ja')
    elif kind == 'closure':
        inv = gens.inventory('ja')
        pool = []
        seen = gens.seen_pairs('ja')
        for a, b in rng.sample(seen, min(len(seen), 1200)):
            for r in call(refcat.ref_parse(a), refcat.ref_parse(b), R):
                pool.append(refcat.to_ref(r.cat))
        R.extra['closure_pool_depth1'] = len(set(pool))
        for i in range(spec['cases']):
            a = rng.choice(pool or inv)
            b = rng.choice(inv) if rng.random() < 0.7 else rng.choice(pool or inv)
            if rng.random() < 0.5:
                a, b = b, a
            for r in call(a, b, R, sample=i % 2000 == 0):
                if len(pool) < 20000:
                    pool.append(refcat.to_ref(r.cat))
            if i % 128 == 0 and R.out_of_time():
                break
    else:
        from collections import defaultdict
        table = defaultdict(list)
        for a, b in gens.unary_pairs('ja'):
            table[refcat.from_ref(refcat.ref_parse(a))].append(refcat.from_ref(refcat.ref_parse(b)))
        inputs = [refcat.ref_parse(a) for a, _ in gens.unary_pairs('ja')]
        R.extra['shipped_unary_lhs'] = len(set(inputs))
        target = refcat.from_ref(refcat.ref_parse('NP[case=nc,mod=X1,fin=X2]/NP[case=nc,mod=X1,fin=X2]'))
        for i, v in enumerate(inputs + unary_inputs(rng, spec['cases'])):
            X = refcat.from_ref(v)
            tab = table if i < len(inputs) else {X: [target]}
            try:
                res = ja.apply_unary_rules(X, tab)          # contract judges the labels
            except Exception as e:
                R.case(('unary', v), True)
                R.violation('ja:raises', f'apply_unary_rules raised {e!r}', {'x': refcat.ref_print(v)})
                continue
            R.case(('unary', v), bool(res))
            if i % 400 == 0:
                R.sample({'unary_input': refcat.ref_print(v), 'labels': [r.op_string for r in res]})


def replay(w, R):
    env.install('ja')
    contracts.bind(R)
    contracts.install_unification_contracts()
    contracts.install_ja_contracts()
    if 'y' in w:
        for r in call(refcat.ref_parse(w['x']), refcat.ref_parse(w['y']), R):
            print('  result:', r)
    else:
        from depccg.grammar import ja
        X = refcat.from_ref(refcat.ref_parse(w['x']))
        print(ja.apply_unary_rules(X, {X: [X]}))

"""C14 — rule application is pure, total and reproducible (also across processes and string-hash seeds);
seen-rule filters only remove; English results ignore nb; unary rules return exactly the table."""
import hashlib
from collections import defaultdict

from vlib import env, gens, refcat, contracts
from vlib.checks import C03, C04
from vlib.runner import shard_rng, stable_hash

ID = 'C14'
LEVEL = 'exploration'
RULE = ('a case is one call of apply_binary_rules / apply_unary_rules of either grammar on inventory pairs, seen pairs, closure '
        'results and schema instantiations that bind ONE feature variable to DIFFERENT values at several positions; monitors: '
        'no exception, argument fingerprints unchanged, second call equal, seen-rule gate == unrestricted-or-empty for random '
        'seen sets, nb-independence (English), unary results == table entry in order; the same inputs are evaluated in fresh '
        'interpreters under different PYTHONHASHSEED values and the serialised result lists must be identical. distinct = '
        'fingerprint of the call; non-trivial = the call returned at least one result.')
ASSUMPTIONS = ['in-domain = one feature system per grammar (English unary features, Japanese triples)',
               'hash seeds are sampled, not enumerated']
REQUIRED_MONITORS = {'pure:args-unchanged': 1000, 'pure:second-call-equal': 1000, 'gate:judged': 500, 'nb:judged': 300,
                     'unary:table-judged': 200, 'hashseed:calls': 2000}
HASHSEEDS_Q = (0, 1, 2, 3, 7, 42)
HASHSEEDS_T = (0, 1, 2, 3, 4, 5, 6, 7, 8, 9, 10, 11, 42, 99, 123, 1234, 4242, 31337, 65535, 100003, 2**31 - 1, 2**32 - 1, 77, 13)


def shards(tier, seed):
    q = tier == 'quick'
    out = []
    nblocks = 2 if q else 4
    for b in range(nblocks):
        for hs in (HASHSEEDS_Q if q else HASHSEEDS_T):
            out.append({'name': f'hs{hs}-b{b}', 'kind': 'hashseed', 'block': b, 'hashseed': hs,
                        'cases': 2500 if q else 30000, 'budget_s': 200 if q else 1500, 'timeout': 1800})
    for k in range(4):
        out.append({'name': f'pure{k}', 'kind': 'pure', 'cases': 5000 if q else 200000, 'budget_s': 45 if q else 600})
    out.append({'name': 'unary', 'kind': 'unary', 'cases': 1500 if q else 60000, 'budget_s': 45 if q else 300})
    return out


def ser(results):
    return [[refcat.ref_print(refcat.to_ref(r.cat)), r.op_string, r.op_symbol, bool(r.head_is_left)] for r in results]


def conflicting_variable_case(rng, lang):
    """one variable, several occurrences, bound to different values on the other side"""
    F = lambda l, s, r: ('F', l, s, r)      # noqa: E731
    if lang == 'en':
        at = lambda b, f: ('A', b, None if f is None else ('U', f))     # noqa: E731
        feats = ['dcl', 'b', 'em', 'conj', 'ng', 'pss', 'to', None]
        n = rng.choice((2, 2, 3))
        bases = [rng.choice(('S', 'NP', 'N', 'PP')) for _ in range(n)]
        B = at(bases[0], 'X')
        B2 = at(bases[0], rng.choice(feats))
        for b in bases[1:]:
            s = rng.choice('/\\')
            B, B2 = F(B, s, at(b, 'X')), F(B2, s, at(b, rng.choice(feats)))
        A = rng.choice((at('S', 'X'), F(at('S', 'X'), '\\', at('NP', 'X')), at('NP', 'X')))
        C = at(rng.choice(('NP', 'PP')), rng.choice(('X', None)))
    else:
        trip = lambda b, vals: ('A', b, ('T', tuple(zip(('mod', 'form', 'fin') if b == 'S' else ('case', 'mod', 'fin'), vals))))  # noqa: E731
        var = ('X1', 'X2', 'X3')
        conc = lambda b: (rng.choice(('nm', 'adn', 'adv')), rng.choice(('base', 'cont', 'attr')), rng.choice('ft')) if b == 'S' \
            else (rng.choice(('ga', 'o', 'ni', 'nc')), rng.choice(('nm', 'adv')), rng.choice('ft'))    # noqa: E731
        n = rng.choice((2, 2, 3))
        bases = [rng.choice(('S', 'NP')) if i else 'S' for i in range(n)]
        bases = ['S'] * n if rng.random() < 0.6 else bases
        B, B2 = trip(bases[0], var), trip(bases[0], conc(bases[0]))
        for b in bases[1:]:
            s = rng.choice('/\\')
            B, B2 = F(B, s, trip(b, var)), F(B2, s, trip(b, conc(b)))
        A = rng.choice((trip('S', var), F(trip('S', var), '\\', trip('NP', var))))
        C = trip('NP', conc('NP'))
        if rng.random() < 0.25:
            # two different variable triples that meet crosswise: A against B at one position, B against A at another
            va, vb = ('X1', 'X2', 'f'), ('X1', 'X3', 'f')
            s1 = rng.choice('/\\')
            B, B2 = F(trip('S', va), s1, trip('S', vb)), F(trip('S', vb), s1, trip('S', va))
            A = rng.choice((trip('S', va), trip('S', vb), F(trip('S', va), '\\', trip('S', vb))))
    row = rng.randrange(6)
    if row == 0:
        return F(A, '/', B), B2
    if row == 1:
        return B2, F(A, '\\', B)
    if row == 2:
        return F(A, '/', B), F(B2, '/', C)
    if row == 3:
        return (F(B2, '/', C), F(A, '\\', B)) if lang == 'en' else (F(B2, '\\', C), F(A, '\\', B))
    if row == 4:
        return F(A, '/', B), F(F(B2, '/' if lang == 'en' else '\\', C), rng.choice('/\\'), C)
    return (F(F(B2, '/', C), rng.choice('/\\'), C), F(A, '\\', B)) if lang == 'en' else (F(A, '/', B), F(B2, '\\', C))


def workload(rng, n, R=None):
    """deterministic list of (lang, x, y) — must not depend on the string-hash seed"""
    en_atoms = [a for a in gens.en_atoms(feats=(None, 'X', 'nb', 'dcl', 'b', 'em', 'ng', 'pss'), punct=())]
    punct = [('A', p, None) for p in (',', ';', 'conj', '.', ':', 'LRB', 'RRB', 'LQU', 'RQU')]
    ja_atoms = gens.ja_atoms()
    inv_en, inv_ja = gens.inventory('en') + gens.inventory('en_rebank'), gens.inventory('ja')
    seen_en, seen_ja = gens.seen_pairs('en') + gens.seen_pairs('en_rebank'), gens.seen_pairs('ja')
    out = []
    for _ in range(n):
        lang = 'en' if rng.random() < 0.55 else 'ja'
        r = rng.random()
        if r < 0.45:
            x, y = conflicting_variable_case(rng, lang)
        elif r < 0.65:
            x, y = C03.schema_case(rng, en_atoms + punct[:3], punct) if lang == 'en' else C04.schema_case(rng, ja_atoms)
        elif r < 0.85:
            a, b = rng.choice(seen_en if lang == 'en' else seen_ja)
            x, y = refcat.ref_parse(a), refcat.ref_parse(b)
        else:
            inv = inv_en if lang == 'en' else inv_ja
            x, y = rng.choice(inv), rng.choice(inv)
        if lang == 'en' and rng.random() < 0.03:
            # the one listed pair of backward application (S[dcl] + S[em]\\S[em]) and its neighbourhood: any left input, and
            # S[dcl] against any right input
            em = ('F', ('A', 'S', ('U', 'em')), '\\', ('A', 'S', ('U', 'em')))
            x, y = (x, em) if rng.random() < 0.7 else (('A', 'S', ('U', 'dcl')), y)
        out.append((lang, x, y))
        k = rng.random()
        if lang == 'en' and k < 0.15 and has_var(x, y):
            # the same pair without its [X] marks: another input with (mostly) another result, whatever was asked before
            out.append((lang, erase_var(x), erase_var(y)))
        elif k < 0.2 and featureless(x) and featureless(y):
            out.append(('ja' if lang == 'en' else 'en', x, y))         # the same featureless pair put to the other grammar
        elif k < 0.25:
            out.append(('ja-unary', C04.unary_inputs(rng, 1)[0], None))
    if rng.random() < 2:
        F = lambda l, s, r: ('F', l, s, r)      # noqa: E731
        S, NP, N = ('A', 'S', None), ('A', 'NP', None), ('A', 'N', None)
        for x, y in ((NP, F(NP, '\\', NP)), (F(S, '/', NP), NP), (F(S, '/', S), F(S, '\\', NP)), (F(NP, '/', N), N), (('A', ',', None), S)):
            pos = rng.randrange(len(out) + 1)
            out.insert(pos, ('en', x, y))
            out.insert(rng.randrange(len(out) + 1), ('ja', x, y))
    return out[:n] if len(out) > n else out


def has_var(*vs):
    return any(a[2] == ('U', 'X') for v in vs for a in refcat.atoms(v))


def erase_var(v):
    if v[0] == 'F':
        return ('F', erase_var(v[1]), v[2], erase_var(v[3]))
    return ('A', v[1], None) if v[2] == ('U', 'X') else v


def featureless(v):
    return all(a[2] is None for a in refcat.atoms(v))


def grammars():
    from depccg.grammar import en, ja
    return {'en': en, 'ja': ja}


def fp_obj(c):
    return (refcat.to_ref(c), hash(c))


def run(spec, R):
    env.install('en')
    contracts.bind(R)
    G = grammars()
    kind = spec['kind']
    if kind == 'hashseed':
        rng = shard_rng(ID, spec['seed'], f'block{spec["block"]}')        # same inputs for every hash seed of a block
        wl = workload(rng, spec['cases'])
        digests, nonempty = [None] * len(wl), 0
        order = list(range(len(wl)))
        hs_list = HASHSEEDS_Q if spec['tier'] == 'quick' else HASHSEEDS_T
        if hs_list.index(spec['hashseed']) % 2 == 1:
            order.reverse()         # every other process meets the inputs in the opposite order: what was asked before must not matter
        for i in order:
            lang, x, y = wl[i]
            if lang == 'ja-unary':
                X = refcat.from_ref(x)
                try:
                    res = ser(G['ja'].apply_unary_rules(X, {X: [X]}))
                except Exception as e:
                    res = ['raised', repr(e)]
                R.case((lang, x), True)
                R.count('hashseed:calls')
                digests[i] = stable_hash(res)
                continue
            X, Y = refcat.from_ref(x), refcat.from_ref(y)
            try:
                res = ser(G[lang].apply_binary_rules(X, Y))
            except Exception as e:
                res = ['raised', repr(e)]
                R.violation('rules:raises', f'{lang} apply_binary_rules raised {e!r}',
                            {'lang': lang, 'x': refcat.ref_print(x), 'y': refcat.ref_print(y)})
            R.case((lang, x, y), bool(res))
            R.count('hashseed:calls')
            nonempty += bool(res)
            digests[i] = stable_hash(res)
        R.extra['_digests'] = {spec['name']: digests}
        R.extra['hashseed_nonempty_calls'] = nonempty
        R.sample({'hashseed': spec['hashseed'], 'block': spec['block'], 'first_input': [wl[0][0], refcat.ref_print(wl[0][1]), refcat.ref_print(wl[0][2])]}, 2)
        return
    rng = shard_rng(ID, spec['seed'], spec['name'])
    if kind == 'pure':
        wl = [w for w in workload(rng, spec['cases']) if w[0] in ('en', 'ja')]
        seen_all = {'en': [(refcat.ref_parse(a), refcat.ref_parse(b)) for a, b in gens.seen_pairs('en')],
                    'ja': [(refcat.ref_parse(a), refcat.ref_parse(b)) for a, b in gens.seen_pairs('ja')]}
        first_results = []
        for i, (lang, x, y) in enumerate(wl):
            g = G[lang]
            wit = {'lang': lang, 'x': refcat.ref_print(x), 'y': refcat.ref_print(y)}
            X, Y = refcat.from_ref(x), refcat.from_ref(y)
            before = (fp_obj(X), fp_obj(Y))
            try:
                r1 = g.apply_binary_rules(X, Y)
                s1 = ser(r1)
                if isinstance(r1, list) and rng.random() < 0.3:
                    r1.append(None)                     # what a caller does with the list it got must not matter
                    del r1[0]
                s2 = ser(g.apply_binary_rules(X, Y))
            except Exception as e:
                R.case((lang, x, y), True)
                R.violation('rules:raises', f'{lang} apply_binary_rules raised {e!r}', wit)
                continue
            R.case((lang, x, y), bool(s1))
            R.count('pure:args-unchanged')
            if (fp_obj(X), fp_obj(Y)) != before:
                R.violation('rules:mutates-argument', f'arguments changed by the call: {wit}', wit)
            R.count('pure:second-call-equal')
            if s1 != s2:
                R.violation('rules:unstable', f'two calls differ: {s1} vs {s2}', wit)
            # (e) seen-rule gate
            names = {'X', 'nb'} if lang == 'en' else set()
            key = (refcat.erase(x, names), refcat.erase(y, names))
            mode = rng.random()
            members = set(rng.sample(seen_all[lang], 40))
            if mode < 0.5:
                members.add(key)
            elif mode < 0.75 and lang == 'en' and key != (x, y):
                members.add((x, y))                       # the un-erased pair alone must not open the gate
                members.discard(key)
            else:
                members.discard(key)
            if rng.random() < 0.08:
                members = set()                                # an empty seen-rule set licenses nothing
            S = {(refcat.from_ref(a), refcat.from_ref(b)) for a, b in members}
            try:
                sg = ser(g.apply_binary_rules(X, Y, S))
            except Exception as e:
                R.violation('rules:raises', f'{lang} apply_binary_rules with a seen-rule set raised {e!r}', wit)
                continue
            R.count('gate:judged')
            want = s1 if key in members else []
            if sg != want:
                R.violation('rules:seen-gate', f'{lang}: pair {"in" if key in members else "not in"} the seen set gave {sg}, '
                            f'unrestricted result is {s1}', dict(wit, in_set=key in members))
            # (f) nb independence
            if lang == 'en':
                ex, ey = refcat.erase(x, {'nb'}), refcat.erase(y, {'nb'})
                sx, sy = sprinkle_nb(ex, rng), sprinkle_nb(ey, rng)
                try:
                    se = ser(g.apply_binary_rules(refcat.from_ref(ex), refcat.from_ref(ey)))
                    sn = ser(g.apply_binary_rules(refcat.from_ref(sx), refcat.from_ref(sy)))
                except Exception as e:
                    R.violation('rules:raises', f'en apply_binary_rules raised {e!r}', wit)
                    continue
                R.count('nb:judged')
                if not (s1 == se == sn):
                    R.violation('rules:nb-dependent', f'results depend on nb marks: {s1} / erased {se} / sprinkled '
                                f'({refcat.ref_print(sx)}, {refcat.ref_print(sy)}) {sn}', wit)
            first_results.append((lang, x, y, s1))
            if i % 1000 == 0:
                R.sample(dict(wit, results=s1))
            if i % 128 == 0 and R.out_of_time():
                break
        # "the same list on every call": whatever was applied in between - evaluate again in reverse order
        for lang, x, y, s1 in reversed(first_results):
            try:
                again = ser(G[lang].apply_binary_rules(refcat.from_ref(x), refcat.from_ref(y)))
            except Exception as e:
                again = ['raised', repr(e)]
            R.count('pure:history-independent')
            if again != s1:
                R.violation('rules:unstable', f'{lang}: {refcat.ref_print(x)} + {refcat.ref_print(y)} gave {s1} first and {again} later in the '
                            f'same process (after other pairs had been combined)', {'lang': lang, 'x': refcat.ref_print(x), 'y': refcat.ref_print(y)})
                break
    else:
        unary_shard(spec, R, rng, G)


def sprinkle_nb(v, rng):
    if v[0] == 'A':
        if v[2] is None and v[1] in gens.EN_BASES and rng.random() < 0.4:
            return ('A', v[1], ('U', 'nb'))
        return v
    return ('F', sprinkle_nb(v[1], rng), v[2], sprinkle_nb(v[3], rng))


def unary_shard(spec, R, rng, G):
    tables = {}
    for lang, name in (('en', 'en'), ('ja', 'ja')):
        t = defaultdict(list)
        for a, b in gens.unary_pairs(name):
            t[refcat.ref_parse(a)].append(refcat.ref_parse(b))
        tables[lang] = dict(t)
    inv = {'en': gens.inventory('en'), 'ja': gens.inventory('ja')}
    for i in range(spec['cases']):
        lang = 'en' if rng.random() < 0.5 else 'ja'
        if rng.random() < 0.5:
            table = tables[lang]
        else:
            ks = rng.sample(inv[lang], rng.randint(1, 6))
            if lang == 'ja':
                ks = [k for k in ks if refcat.atoms(k)[0][2] is not None] or [refcat.ref_parse('S[mod=adn,form=base,fin=f]')]
            table = {k: [rng.choice(inv[lang]) for _ in range(rng.randint(1, 4))] for k in ks}
            if lang == 'en' and rng.random() < 0.4:
                # NP / PP keys whose targets mix type-raising and other categories in any order
                tr = [refcat.ref_parse(b) for a, b in gens.unary_pairs('en') if a in ('NP', 'PP')]
                k1 = refcat.ref_parse(rng.choice(('NP', 'PP')))
                tg = rng.sample(tr, rng.randint(1, 3)) + [rng.choice(inv[lang]) for _ in range(rng.randint(1, 2))]
                rng.shuffle(tg)
                table[k1] = tg
            if lang == 'en' and rng.random() < 0.3:
                # any key (functors too) may have a target of the type-raised shape T/(T\\X) or T\\(T/X)
                k2, T = rng.choice(ks), rng.choice(inv[lang])
                arg = k2 if rng.random() < 0.7 else rng.choice(inv[lang])
                tgt = ('F', T, '/', ('F', T, '\\', arg)) if rng.random() < 0.5 else ('F', T, '\\', ('F', T, '/', arg))
                table[k2].insert(rng.randrange(len(table[k2]) + 1), tgt)
            if rng.random() < 0.3:
                k0 = rng.choice(ks)                            # a category may be listed among its own targets
                table[k0].insert(rng.randrange(len(table[k0]) + 1), k0)
        real = defaultdict(list)
        for k, vs in table.items():
            real[refcat.from_ref(k)] = [refcat.from_ref(v) for v in vs]
        snapshot = {k: list(v) for k, v in real.items()}
        x = rng.choice(list(table)) if rng.random() < 0.6 else rng.choice(inv[lang])
        if lang == 'ja' and refcat.atoms(x)[0][2] is None:
            continue
        X = refcat.from_ref(x)
        wit = {'lang': lang, 'x': refcat.ref_print(x), 'table': {refcat.ref_print(k): [refcat.ref_print(v) for v in vs] for k, vs in table.items()}}
        try:
            r1 = G[lang].apply_unary_rules(X, real)
            r2 = G[lang].apply_unary_rules(X, real)
        except Exception as e:
            R.case(('u', lang, x), True)
            R.violation('rules:raises', f'{lang} apply_unary_rules raised {e!r}', wit)
            continue
        got = [refcat.to_ref(r.cat) for r in r1]
        R.case(('u', lang, x, stable_hash(wit['table'])), bool(got))
        R.count('unary:table-judged')
        if got != table.get(x, []):
            R.violation('rules:unary-table', f'{lang} unary results {[refcat.ref_print(g) for g in got]} are not the configured targets '
                        f'{[refcat.ref_print(v) for v in table.get(x, [])]} in order', wit)
        if ser(r1) != ser(r2):
            R.violation('rules:unstable', 'two unary calls differ', wit)
        if {k: list(v) for k, v in real.items()} != snapshot or refcat.to_ref(X) != x:
            R.violation('rules:mutates-argument', 'unary call changed its table or argument', wit)
        if i % 500 == 0:
            R.sample({'lang': lang, 'x': refcat.ref_print(x), 'unary_results': ser(r1)})


def finish(merged, results, tier, seed, inconclusive):
    merged['extra'].pop('_digests', None)
    by_block = defaultdict(dict)
    for r in results:
        spec = r['spec']
        rep = r.get('report') or {}
        d = rep.get('extra', {}).get('_digests', {}).get(spec['name'])
        if spec.get('kind') == 'hashseed' and d is not None:
            by_block[spec['block']][spec['hashseed']] = d
    compared = 0
    import random
    for block, per_seed in by_block.items():
        seeds = sorted(per_seed)
        base = per_seed[seeds[0]]
        for hs in seeds[1:]:
            compared += 1
            other = per_seed[hs]
            if len(other) != len(base):
                inconclusive.append(f'hash-seed shards of block {block} evaluated different numbers of calls')
                continue
            diff = [i for i, (a, b) in enumerate(zip(base, other)) if a != b]
            if diff:
                env.install()
                wl = workload(shard_rng(ID, seed, f'block{block}'), len(base))
                for i in diff[:3]:
                    lang, x, y = wl[i]
                    merged['violations'].append({
                        'key': 'rules:hash-seed-dependent',
                        'what': f'{lang}: {refcat.ref_print(x)} + {refcat.ref_print(y) if y else "(unary)"} gives different results in two '
                                f'fresh processes (PYTHONHASHSEED={seeds[0]} and {hs}; odd-numbered processes meet the block in reverse order)',
                        'witness': {'lang': lang, 'x': refcat.ref_print(x), 'y': refcat.ref_print(y) if y else None, 'hashseeds': [seeds[0], hs]}})
                merged['vcount']['rules:hash-seed-dependent'] = merged['vcount'].get('rules:hash-seed-dependent', 0) + len(diff)
    merged['monitors']['hashseed:process-pairs-compared'] = compared
    merged['extra']['hash_seeds'] = sorted({hs for d in by_block.values() for hs in d})
    if compared < 2:
        inconclusive.append('fewer than two hash-seed process pairs compared')


def replay(w, R):
    import os
    import subprocess
    import sys
    env.install()
    x, y, lang = w['x'], w['y'], w['lang']
    if y is None or lang == 'ja-unary':
        print('unary witness: re-run the shard (', w, ')')
        R.case((x,), True)
        return
    code = ("import sys; sys.path.insert(0, %r); from vlib import env, refcat; env.install(); from vlib.checks.C14 import ser, grammars; "
            "print(ser(grammars()[%r].apply_binary_rules(refcat.from_ref(refcat.ref_parse(%r)), refcat.from_ref(refcat.ref_parse(%r)))))"
            % (env.VERIF, lang, x, y))
    outs = {}
    for hs in range(12):
        e = dict(os.environ, PYTHONHASHSEED=str(hs), PYTHONWARNINGS='ignore')
        outs[hs] = subprocess.run([sys.executable, '-c', code], env=e, capture_output=True, text=True).stdout.strip()
    R.case((x, y), True)
    kinds = sorted(set(outs.values()))
    for k in kinds:
        print([hs for hs, o in outs.items() if o == k], k)
    if len(kinds) > 1:
        R.violation('rules:hash-seed-dependent', f'{len(kinds)} different results over 12 hash seeds', w)

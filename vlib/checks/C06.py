"""C06 — pattern matching of categories (contracts on the real Unification, reference matcher in vlib/refunify.py)."""
import os
import re

from vlib import env, gens, refcat, refunify, contracts
from vlib.runner import shard_rng

ID = 'C06'
LEVEL = 'exploration'
RULE = ('a case is (pattern pair, x, y): the pattern pairs found in the current grammar sources (en.py, ja.py) and random '
        'pattern pairs (<= 6 variables, a variable at most once per side); inputs are instantiations of the patterns over one '
        'feature system with perturbations (a feature changed/removed/turned into X, nb, X1; one slash flipped or turned into |; '
        'one atom replaced; one sub-tree grafted) and independent random categories. distinct = fingerprint of the triple; '
        'non-trivial = both inputs are functors or the reference predicts success.')
ASSUMPTIONS = ['reference matcher in vlib/refunify.py states the property (triples: compatible = equal or same keys and '
               'position-wise subsumption in one direction)', 'a pattern variable occurs at most once per pattern',
               'one feature system per call (no unary/triple mix under one base)']
REQUIRED_MONITORS = {'contract:Unification.__call__:success': 500, 'contract:Unification.__call__:failure': 500,
                     'contract:Unification.__getitem__': 500, 'read-after-failure': 200, 'second-call': 200}
NSHARDS = 16


def shards(tier, seed):
    return [{'name': f's{k}', 'k': k, 'cases': 14000 if tier == 'quick' else 600000,
             'budget_s': 45 if tier == 'quick' else 500} for k in range(NSHARDS)] + [{'name': 'repotests', 'kind': 'repotests', 'budget_s': 300}]


def grammar_patterns():
    out = []
    for fn in ('en.py', 'ja.py'):
        src = open(os.path.join(env.REPO, 'depccg', 'grammar', fn), encoding='utf-8').read()
        for m in re.finditer(r'Unification\(\s*"((?:[^"\\]|\\.)*)"\s*,\s*"((?:[^"\\]|\\.)*)"\s*\)', src):
            px, py = (s.encode().decode('unicode_escape') for s in m.groups())
            if (px, py) not in out:
                out.append((px, py))
    return out


def random_pattern_pair(rng):
    names = list('abcdef')
    rng.shuffle(names)
    nx, ny = rng.randint(1, 3), rng.randint(1, 3)
    shared = rng.randint(1, min(nx, ny))
    vx = names[:nx]
    vy = vx[:shared] + names[nx:nx + ny - shared]
    rng.shuffle(vy)

    if rng.random() < 0.25:
        vx = vx + [rng.choice(vx)]            # a variable that occurs twice inside one pattern
        rng.shuffle(vx)

    def tree(vs):
        if len(vs) == 1:
            return ('A', vs[0], None)
        k = rng.randint(1, len(vs) - 1)
        return ('F', tree(vs[:k]), rng.choice('/\\|'), tree(vs[k:]))
    return tree(vx), tree(vy)


def instantiate(p, assign, rng):
    if p[0] == 'A':
        return assign[p[1]]
    s = p[2]
    if s == '|' and rng.random() < 0.85:
        s = rng.choice('/\\')
    elif rng.random() < 0.04:
        s = '|'
    return ('F', instantiate(p[1], assign, rng), s, instantiate(p[3], assign, rng))


def perturb(v, rng, atoms, system):
    """one random local change"""
    def paths(x, p=()):
        yield p, x
        if x[0] == 'F':
            yield from paths(x[1], p + (1,))
            yield from paths(x[3], p + (3,))

    def put(x, p, new):
        if not p:
            return new
        lst = list(x)
        lst[p[0]] = put(x[p[0]], p[1:], new)
        return tuple(lst)
    allp = list(paths(v))
    p, sub = rng.choice(allp)
    r = rng.random()
    if sub[0] == 'A':
        if r < 0.75:
            if system == 'en':
                f = rng.choice((None, ('U', 'X'), ('U', 'nb'), ('U', 'dcl'), ('U', 'b'), ('U', 'em')))
            else:
                if sub[2] is None:
                    return v
                kvs = list(sub[2][1])
                i = rng.randrange(3)
                kvs[i] = (kvs[i][0], rng.choice(('X1', 'X2', 'X3', 'nm', 'f', 't', 'ga', 'base', 'adn')))
                f = ('T', tuple(kvs))
            return put(v, p, ('A', sub[1], f))
        if r < 0.9:
            return put(v, p, rng.choice(atoms))
        return put(v, p, ('F', sub, rng.choice('/\\'), rng.choice(atoms)))
    if r < 0.5:
        return put(v, p, ('F', sub[1], rng.choice('/\\|'), sub[3]))
    if r < 0.8:
        return put(v, p, sub[1])
    return put(v, p, ('F', sub[3], sub[2], sub[1]))


def one_case(px, py, x, y, R, sample=False):
    from depccg.unification import Unification
    want, bx, by = refunify.ref_match(px, py, x, y)
    if want is None:
        R.count('out-of-domain')
        return
    R.case((px, py, x, y), bool(want) or (x[0] == 'F' and y[0] == 'F'))
    wit = {'px': refcat.ref_print(px), 'py': refcat.ref_print(py), 'x': refcat.ref_print(x), 'y': refcat.ref_print(y)}
    X, Y = refcat.from_ref(x), refcat.from_ref(y)
    h = hash((wit['px'], wit['py'], wit['x'])) % 4
    # the patterns may be given as text or as category objects (either side)
    uni = Unification(refcat.from_ref(px) if h in (1, 3) else wit['px'], refcat.from_ref(py) if h in (2, 3) else wit['py'])
    try:
        ok = uni(X, Y)                      # contract compares with the reference verdict
    except Exception as e:
        R.violation('unify:success-mismatch', f'matcher raised {e!r} on {wit}', wit)
        return
    if refcat.to_ref(X) != x or refcat.to_ref(Y) != y:
        R.violation('unify:binding', f'matching changed its inputs: {wit}', wit)
    vars_ = list(dict.fromkeys(refunify.pattern_vars(px) + refunify.pattern_vars(py)))
    if ok:
        for v in vars_:
            try:
                uni[v]                      # contract checks the binding
            except Exception as e:
                R.violation('unify:binding', f'reading {v!r} after success raised {e!r}', dict(wit, var=v))
    else:
        R.count('read-after-failure')
        for v in vars_:
            try:
                got = uni[v]
            except Exception:
                continue
            R.violation('unify:read-after-failure', f'binding {v!r} readable after a failed match: {got!s}', dict(wit, var=v))
            break
    R.count('second-call')
    try:
        uni(X, Y)
    except Exception:
        pass
    else:
        R.violation('unify:second-call', f'matcher answered a second time: {wit}', wit)
    if sample:
        R.sample(dict(wit, reference_verdict=want))
    # two matchers for the same pattern pair may be alive at once (a combinator that calls another one): what this matcher
    # answered must not change when a later matcher for the same patterns answers something else
    key = (wit['px'], wit['py'])
    prev = _LIVE.get(key)
    if prev is not None and (prev['x'], prev['y']) != (x, y):
        R.count('two-live-matchers')
        puni = prev['uni']
        if prev['ok']:
            for v, was in prev['bindings'].items():
                try:
                    now = refcat.to_ref(puni[v])
                except Exception as e:
                    now = repr(e)
                if now != was:
                    R.violation('unify:binding', f'binding {v!r} of a matcher changed from {refcat.ref_print(was)} to '
                                f'{now if isinstance(now, str) else refcat.ref_print(now)} after another matcher for the same patterns was used',
                                dict(prev['wit'], var=v, later=wit))
                    break
        else:
            for v in vars_:
                try:
                    got = puni[v]
                except Exception:
                    continue
                R.violation('unify:read-after-failure', f'binding {v!r} of a failed matcher became readable after another matcher for '
                            f'the same patterns succeeded: {got!s}', dict(prev['wit'], var=v, later=wit))
                break
        try:
            puni(refcat.from_ref(prev['x']), refcat.from_ref(prev['y']))
        except Exception:
            pass
        else:
            R.violation('unify:second-call', 'a matcher that had answered answered again after another matcher for the same '
                        'patterns was created', dict(prev['wit'], later=wit))
    snap = {}
    if ok:
        for v in vars_:
            try:
                snap[v] = refcat.to_ref(uni[v])
            except Exception:
                pass
    _LIVE[key] = {'uni': uni, 'ok': bool(ok), 'bindings': snap, 'x': x, 'y': y, 'wit': wit}
    if len(_LIVE) > 400:
        _LIVE.pop(next(iter(_LIVE)))


_LIVE = {}


def gen_case(rng, pats, en_atoms, ja_atoms):
    if rng.random() < 0.7:
        px, py = rng.choice(pats)
    else:
        px, py = random_pattern_pair(rng)
    system = 'en' if rng.random() < 0.55 else 'ja'
    atoms = en_atoms if system == 'en' else ja_atoms
    mode = rng.random()
    if mode < 0.12:
        return px, py, gens.random_value(rng, atoms, 5), gens.random_value(rng, atoms, 5)
    vars_ = set(refunify.pattern_vars(px) + refunify.pattern_vars(py))
    assign = {v: gens.random_value(rng, atoms, rng.choice((1, 1, 2, 3, 3, 4, 5, 6))) for v in sorted(vars_)}
    x = instantiate(px, assign, rng)
    assign_y = dict(assign)
    x = x if rng.random() < 0.6 else perturb(x, rng, atoms, system)
    y = instantiate(py, assign_y, rng)
    n = rng.choice((0, 1, 1, 1, 2, 3))
    for _ in range(n):
        y = perturb(y, rng, atoms, system)
    return px, py, x, y


def run(spec, R):
    env.install()
    contracts.bind(R)
    contracts.install_unification_contracts()
    if spec.get('kind') == 'repotests':
        from vlib import repotests
        repotests.run_repo_tests(R, ['tests/test_unification.py', 'tests/grammar'], lambda: None)
        return
    rng = shard_rng(ID, spec['seed'], spec['name'])
    pats = [(refcat.ref_parse(a), refcat.ref_parse(b)) for a, b in grammar_patterns()]
    R.extra['grammar_pattern_pairs'] = len(pats)
    if len(pats) < 10:
        R.inconclusive_because(f'only {len(pats)} pattern pairs found in the grammar sources')
    en_atoms = gens.en_atoms(feats=(None, 'X', 'nb', 'dcl', 'b', 'em'), punct=('conj', ','))
    ja_atoms = gens.ja_atoms()
    # the same base with the other key set (compatible values but different keys must not match)
    ja_atoms = ja_atoms + [('A', 'S', ('T', (('case', 'X1'), ('mod', 'nm'), ('fin', 'f')))), ('A', 'NP', ('T', (('mod', 'nm'), ('form', 'X2'), ('fin', 'f'))))]
    for i in range(spec['cases']):
        px, py, x, y = gen_case(rng, pats, en_atoms, ja_atoms)
        one_case(px, py, x, y, R, sample=i < 3)
        if i % 256 == 0 and R.out_of_time():
            R.extra['cut_short'] = 1
            break


def replay(w, R):
    env.install()
    contracts.bind(R)
    contracts.install_unification_contracts()
    one_case(refcat.ref_parse(w['px']), refcat.ref_parse(w['py']), refcat.ref_parse(w['x']), refcat.ref_parse(w['y']), R)

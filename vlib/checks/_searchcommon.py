"""shared shard plan / loop for the search-decided properties"""
from vlib import build, search
from vlib.runner import shard_rng, stable_hash

ASSUMPTIONS = ['parsing.pyx is executed through pyxlite (typed-variable semantics emulated, DESIGN 1.3)',
               'reference oracle vlib/oracle_cky.py; sentences whose enumeration exceeds the budget are skipped and counted',
               'ASan+UBSan build of parsing.h is loaded into the stock interpreter via LD_PRELOAD for the asan shards']


def prepare(tier, seed):
    build.build('plain')
    build.build('asan')
    build.build('vg')
    build.prune()
    return {}


def shards(tier, seed, nplain=10, nasan=4, q_cases=500, t_cases=30000, real=True, q_asan=300, t_asan=10000):
    q = tier == 'quick'
    out = []
    for k in range(nplain):
        out.append({'name': f'plain{k}', 'variant': 'plain', 'build': 'plain', 'cases': q_cases if q else t_cases,
                    'budget_s': 50 if q else 600, 'kind': 'synthetic'})
    for k in range(nasan):
        out.append({'name': f'asan{k}', 'variant': 'asan', 'build': 'asan', 'cases': q_asan if q else t_asan,
                    'budget_s': 50 if q else 600, 'kind': 'synthetic'})
    if real:
        out += [{'name': f'real-{lang}', 'variant': 'plain', 'build': 'plain', 'kind': 'real', 'lang': lang,
                 'cases': 30 if q else 400, 'budget_s': 50 if q else 600} for lang in ('en', 'ja')]
    return out


def run(ID, PROP, spec, R, gen, nontrivial, per_case=None):
    E = search.Engine(R, spec['variant'], PROP)
    rng = shard_rng(ID, spec['seed'], spec['name'])
    if spec['kind'] == 'real':
        from vlib import realgrammar
        realgrammar.run_real_cases(E, rng, spec, R, nontrivial)
        return
    for i in range(spec['cases']):
        case = gen(rng, spec)
        sums = search.run_and_check(E, case, sample=i % 200 == 0)
        fp = stable_hash(search.case_to_json(case))
        for si, s in enumerate(sums):
            R.case(f'{fp}{si}'[-16:], bool(nontrivial(s, case)))
        if per_case:
            per_case(E, case, sums)
        if (i % 16 == 0 or spec.get('valgrind')) and R.out_of_time():
            R.extra['cut_short'] = 1
            break


def replay(PROP, w, R):
    E = search.Engine(R, 'plain', PROP)
    case = search.case_from_json(w['case'])
    R.case('replay', True)
    search.run_and_check(E, case)

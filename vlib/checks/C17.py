"""C17 — the category dictionary restricts exactly the listed words (contract on the real apply_category_filters,
plus the shipped dictionary / inventories pushed through the real read_params and the real filter)."""
import numpy as np

from vlib import env, gens, refcat, contracts
from vlib.runner import shard_rng

ID = 'C17'
LEVEL = 'exploration'
RULE = ('a case is one call of the real apply_category_filters on a random document (1-6 sentences x 1-9 tokens, words drawn from '
        'a small vocabulary so that words repeat), random float32 score matrices, a random category list (4-40 categories) and a '
        'random dictionary (listed sets of size 0..all, duplicate listings, words in and out of the dictionary, custom large '
        'negative value), in the one-sentence and many-sentence call forms; plus the shipped English dictionary with one document '
        'holding all of its words. distinct = fingerprint of (words, dictionary, matrices); non-trivial = at least one token is in '
        'the dictionary and at least one is not.')
ASSUMPTIONS = ['expected rows are computed independently with numpy.where on a snapshot taken before the call']
REQUIRED_MONITORS = {'filter:calls': 500, 'filter:tokens-in-dict': 500, 'filter:tokens-not-in-dict': 500,
                     'filter:missing-category-rejected': 20, 'shipped:dict-categories-in-inventory': 1,
                     'filter:lists-with-nb-twins': 50}


def shards(tier, seed):
    q = tier == 'quick'
    out = [{'name': f'r{k}', 'kind': 'random', 'cases': 500 if q else 40000, 'budget_s': 40 if q else 400} for k in range(10)]
    out.append({'name': 'shipped', 'kind': 'shipped', 'budget_s': 200})
    return out


def nb_variant(v):
    """v with the nb mark of its NP atoms toggled (removed if present anywhere, added to bare NP atoms otherwise)"""
    has = any(a[1] == 'NP' and a[2] == ('U', 'nb') for a in refcat.atoms(v))

    def rec(x):
        if x[0] == 'F':
            return ('F', rec(x[1]), x[2], rec(x[3]))
        if x[1] == 'NP' and has and x[2] == ('U', 'nb'):
            return ('A', 'NP', None)
        if x[1] == 'NP' and not has and x[2] is None:
            return ('A', 'NP', ('U', 'nb'))
        return x
    return rec(v)


def one_case(rng, R, sample=False):
    from depccg.parsing import apply_category_filters
    from depccg.types import Token, ScoringResult
    nrng = np.random.default_rng(rng.randrange(2**32))
    inv = gens.inventory('en')
    ncat = rng.randint(4, 40)
    cats_ref = rng.sample(inv, ncat)
    if rng.random() < 0.3:
        # categories that differ only in an [nb] mark are different tags (NP[nb]/N and NP/N are both in the shipped inventory's
        # alphabet); a dictionary entry names exactly one of them
        for c in rng.sample(cats_ref, min(3, len(cats_ref))):
            v = nb_variant(c)
            if v != c and v not in cats_ref:
                cats_ref.insert(rng.randrange(len(cats_ref) + 1), v)
        ncat = len(cats_ref)
        R.count('filter:lists-with-nb-twins')
    cats = [refcat.from_ref(c) for c in cats_ref]
    vocab = [f'w{i}' for i in range(rng.randint(2, 12))] + ['(', ',', 'The', 'the']
    nsent = rng.randint(1, 6) if rng.random() > 0.02 else rng.randint(21, 30)     # rarely: more sentences than one parser chunk
    single = nsent == 1 and rng.random() < 0.5
    doc, scores = [], []
    for _ in range(nsent):
        n = rng.randint(1, 9)
        doc.append([Token(word=rng.choice(vocab), pos='X') for _ in range(n)])
        tag = nrng.standard_normal((n, ncat)).astype(np.float32)
        if rng.random() < 0.3:
            tag = (tag - np.log(np.exp(tag).sum(1, keepdims=True))).astype(np.float32)
        dep = nrng.standard_normal((n, n + 1)).astype(np.float32)
        lay = rng.random()
        if lay < 0.15:                      # a column slice of a wider (padded) batch matrix: not C-contiguous
            wide = np.zeros((n, ncat + 3), dtype=np.float32)
            wide[:, :ncat] = tag
            tag = wide[:, :ncat]
            R.count('filter:non-contiguous-matrices')
        elif lay < 0.25:
            tag = np.asfortranarray(tag)
            R.count('filter:non-contiguous-matrices')
        elif lay < 0.35:
            tag, dep = tag.astype(np.float64) + 1e-9, dep.astype(np.float64) + 1e-9     # the caller's own arrays, whatever their dtype
            R.count('filter:float64-matrices')
        scores.append(ScoringResult(tag, dep))
    dict_words = rng.sample(vocab, rng.randint(0, len(vocab)))
    cat_dict = {}
    for w in dict_words:
        k = rng.choice((0, 1, 1, 2, 3, ncat // 2, ncat))
        listed = [rng.randrange(ncat) for _ in range(k)] if rng.random() < 0.3 else rng.sample(range(ncat), k)
        # listings are given as independently rebuilt category objects (equal values, different objects)
        cat_dict[w] = [refcat.from_ref(cats_ref[i]) for i in listed]
    neg = rng.choice((None, None, -1e30, -12345.5))
    before_tag = [s.tag_scores.copy() for s in scores]
    before_dep = [s.dep_scores.copy() for s in scores]
    tokens_before = [[(id(t), dict(t)) for t in sent] for sent in doc]
    wit = {'words': [[t.word for t in s] for s in doc], 'dict': {w: [str(c) for c in cs] for w, cs in cat_dict.items()},
           'categories': [str(c) for c in cats], 'single_form': single, 'large_negative_value': neg}
    n_in = sum(t.word in cat_dict for s in doc for t in s)
    n_out = sum(t.word not in cat_dict for s in doc for t in s)
    R.case(wit if False else (wit['words'], sorted(wit['dict'].items()), before_tag[0].tobytes()[:64]), n_in > 0 and n_out > 0)
    kwargs = {} if neg is None else {'large_negative_value': neg}
    negv = np.float64(-10e+32 if neg is None else neg)        # cast to each matrix's own dtype where it is compared
    try:
        if single:
            rdoc, rscores = apply_category_filters(doc[0], scores[0], cats, cat_dict, **kwargs)
        else:
            rdoc, rscores = apply_category_filters(doc, scores, cats, cat_dict, **kwargs)
    except Exception as e:
        R.violation('catdict:not-applicable', f'apply_category_filters raised {e!r}', wit)
        return
    R.count('filter:calls')
    R.count('filter:tokens-in-dict', n_in)
    R.count('filter:tokens-not-in-dict', n_out)
    for si, sent in enumerate(doc):
        for ti, tok in enumerate(sent):
            row = scores[si].tag_scores[ti]
            if tok.word in cat_dict:
                listed = np.zeros(ncat, dtype=bool)
                for c in cat_dict[tok.word]:
                    listed[cats.index(c)] = True
                want = np.where(listed, before_tag[si][ti], negv.astype(row.dtype))
            else:
                want = before_tag[si][ti]
            if row.tobytes() != want.astype(row.dtype).tobytes():
                R.violation('catdict:mask', f'sentence {si} token {ti} ({tok.word!r}, {"in" if tok.word in cat_dict else "not in"} the '
                            f'dictionary): row {row.tolist()} expected {want.tolist()}', dict(wit, sentence=si, token=ti))
                return
        if scores[si].dep_scores.tobytes() != before_dep[si].tobytes():
            R.violation('catdict:dep-touched', f'dependency scores of sentence {si} changed', dict(wit, sentence=si))
            return
    if [[(id(t), dict(t)) for t in sent] for sent in doc] != tokens_before:
        R.violation('catdict:order', 'tokens changed or reordered', wit)
    # returned document: the same token objects in the same order
    flat_in = [id(t) for s in doc for t in s]
    try:
        rd = rdoc if isinstance(rdoc[0], list) else [rdoc]
        flat_out = [id(t) for s in rd for t in s]
    except Exception:
        flat_out = None
    if flat_out != flat_in:
        R.violation('catdict:order', 'returned document does not hold the input tokens in input order', wit)
    # a dictionary category missing from the category list must be rejected
    if cat_dict and rng.random() < 0.25:
        missing = next((c for c in gens.inventory('en_rebank') + inv if refcat.from_ref(c) not in cats), None)
        bad = dict(cat_dict)
        bad[dict_words[0]] = list(bad[dict_words[0]]) + [refcat.from_ref(missing)]
        snap = [s.tag_scores.copy() for s in scores]
        try:
            apply_category_filters(doc, scores, cats, bad)
        except Exception:
            R.count('filter:missing-category-rejected')
            if any(a.tobytes() != s.tag_scores.tobytes() for a, s in zip(snap, scores)):
                R.violation('catdict:not-applicable', 'scores were modified although the dictionary was rejected', wit)
        else:
            R.violation('catdict:not-applicable', f'a dictionary category ({refcat.ref_print(missing)}) that is not in the category '
                        'list was accepted silently', dict(wit, missing=refcat.ref_print(missing)))
    if sample:
        R.sample({k: wit[k] for k in ('words', 'dict', 'single_form')})


def run(spec, R):
    env.install('en')
    env.stub_native_parsing()
    contracts.bind(R)
    contracts.install_cat_contracts()
    rng = shard_rng(ID, spec['seed'], spec['name'])
    if spec['kind'] == 'random':
        for i in range(spec['cases']):
            one_case(rng, R, sample=i < 2)
            if i % 32 == 0 and R.out_of_time():
                break
        return
    # ---- shipped data through the real read_params and the real filter
    from depccg.allennlp.utils import read_params
    from depccg.parsing import apply_category_filters
    from depccg.types import Token, ScoringResult
    from depccg.cat import Category
    from depccg.lang import set_global_language_to
    for cfg, lang, nodict in (('config_en.jsonnet', 'en', False), ('config_rebank.jsonnet', 'en', True), ('config_ja.jsonnet', 'ja', True)):
        set_global_language_to(lang)
        try:
            # a configuration that carries a dictionary is read with it (today only config_en does)
            try:
                b, u, cd, roots = read_params(env.model_path(cfg), False)
            except KeyError:
                b, u, cd, roots = read_params(env.model_path(cfg), True)     # parse contract checks every string it reads
        except Exception as e:
            R.violation('data:unparseable-string', f'read_params({cfg}) raised {e!r}', {'config': cfg})
            continue
        R.count('shipped:configs-read')
        R.case(('config', cfg), True)
        R.extra[f'dictionary_words_{cfg}'] = len(cd or {})
        if cd:
            targets = roots                                   # read_params returns the parsed targets list
            tset = set(targets)
            # the dictionary object is NOT inspected before it is used (inspection could consume it); what it must contain is
            # read independently from the shipped file
            raw = env.load_jsonnet(env.model_path(cfg))['cat_dict']
            canon = lambda t: refcat.ref_print(refcat.ref_parse(t))      # noqa: E731
            tcanon = {}
            for i, c in enumerate(targets):
                tcanon.setdefault(refcat.ref_print(refcat.to_ref(c)), i)
            bad = sorted({t for cats in raw.values() for t in cats if canon(t) not in tcanon})
            R.count('shipped:dict-categories-in-inventory')
            R.extra['shipped_dict_words'] = len(raw)
            R.extra['shipped_targets'] = len(targets)
            if bad:
                R.violation('data:not-in-inventory', f'{cfg}: dictionary categories missing from the tag inventory of the same configuration: {bad[:5]}', {'missing': bad, 'config': cfg})
                continue
            if len(set(targets)) != len(targets):
                R.count('shipped:duplicate-targets')
            words = sorted(raw)
            rng.shuffle(words)
            words += ['zzz-not-in-dict', 'qqq']
            doc = [[Token(word=w) for w in words]]
            nrng = np.random.default_rng(7)
            tag = nrng.standard_normal((len(words), len(targets))).astype(np.float32)
            dep = nrng.standard_normal((len(words), len(words) + 1)).astype(np.float32)
            before, bdep = tag.copy(), dep.copy()
            try:
                apply_category_filters(doc, [ScoringResult(tag, dep)], targets, cd)
            except Exception as e:
                R.violation('catdict:not-applicable', f'shipped dictionary could not be applied: {e!r}', {})
                continue
            wrong = 0
            for ti, w in enumerate(words):
                R.case(('shipped-word', w), True)
                if w in raw:
                    listed = np.zeros(len(targets), dtype=bool)
                    for t in raw[w]:
                        listed[tcanon[canon(t)]] = True
                    want = np.where(listed, before[ti], np.float32(-10e+32))
                else:
                    want = before[ti]
                if tag[ti].tobytes() != want.astype(np.float32).tobytes():
                    wrong += 1
                    if wrong <= 2:
                        R.violation('catdict:mask', f'shipped dictionary: row of {w!r} is not the expected mask', {'word': w})
            R.count('filter:tokens-in-dict', len(raw))
            # the same dictionary object serves every later batch of the session
            w2 = words[:200]
            tag2 = nrng.standard_normal((len(w2), len(targets))).astype(np.float32)
            b2 = tag2.copy()
            try:
                apply_category_filters([[Token(word=w) for w in w2]], [ScoringResult(tag2, np.zeros((len(w2), len(w2) + 1), dtype=np.float32))], targets, cd)
                R.count('filter:second-application-of-the-same-dictionary')
                for ti, w in enumerate(w2):
                    if w in raw:
                        listed = np.zeros(len(targets), dtype=bool)
                        for t in raw[w]:
                            listed[tcanon[canon(t)]] = True
                        if tag2[ti].tobytes() != np.where(listed, b2[ti], np.float32(-10e+32)).astype(np.float32).tobytes():
                            R.violation('catdict:mask', f'second application of the shipped dictionary: row of {w!r} is not the expected mask',
                                        {'word': w, 'application': 2})
                            break
            except Exception as e:
                R.violation('catdict:not-applicable', f'second application of the shipped dictionary raised {e!r}', {})
            if dep.tobytes() != bdep.tobytes():
                R.violation('catdict:dep-touched', 'dependency scores changed', {})
            R.sample({'shipped_document_words': len(words), 'first': words[:5]})
    # every shipped string is well formed (parse contract + print-back)
    for src, strings in gens.shipped_strings().items():
        for s in strings:
            R.hist('shipped_strings', src)
            try:
                c = Category.parse(s)
                if Category.parse(str(c)) != c:
                    R.violation('data:unparseable-string', f'{src}: {s!r} does not print back to itself', {'text': s})
            except Exception as e:
                R.violation('data:unparseable-string', f'{src}: {s!r} rejected: {e!r}', {'source': src, 'text': s})

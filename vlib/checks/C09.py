"""C09 — the reported score is the model score of the returned tree."""
from vlib import search
from vlib.checks import _searchcommon as SC

ID = PROP = 'C09'
LEVEL = 'exploration'
RULE = ('cases as for C02 (1-best and n-best, head-left, head-right and mixed-head grammars, penalties incl. 0); for every returned tree the score is '
        'recomputed from the tree alone: leaf categories -> tag scores by position, heads from the tree\'s own head flags, dependency '
        'score of every non-head child, root attachment, minus penalty per unary node; exact equality for dyadic score families; '
        'placeholder must carry -inf. distinct = fingerprint of (grammar, matrices, config); non-trivial = the tree has a binary node.')
ASSUMPTIONS = SC.ASSUMPTIONS
REQUIRED_MONITORS = {'monitor:score-recomputed': 500, 'monitor:failure-legitimacy': 20}
prepare = SC.prepare


def shards(tier, seed):
    return SC.shards(tier, seed, q_cases=450)


def gen(rng, spec):
    r = rng.random()
    if r < 0.35:
        return search.gen_case(rng, nbest=rng.choice((2, 3, 5)), max_n=5, sparse=True)
    if r < 0.55:
        # different results of one category pair may have different head directions: the score must follow each tree's own flags
        return search.gen_case(rng, nbest=rng.choice((1, 2, 3)), max_n=5, sparse=rng.random() < 0.5, mixed_heads=True)
    return search.gen_case(rng, max_n=6, head_left=rng.random() < 0.4)


_gen = gen


def gen(rng, spec):
    case = _gen(rng, spec)
    if rng.random() < 0.12:
        case['config']['unary_penalty'] = rng.choice((-0.125, -0.5))      # a bonus instead of a penalty is accounted the same way
    return case


def run(spec, R):
    SC.run(ID, PROP, spec, R, gen, lambda s, c: s.get('parsed') and max(len(x[0]) for x in c['sentences']) >= 2)


def replay(w, R):
    SC.replay(PROP, w, R)

"""C13 — categories behave as values (contracts on the real __eq__/__xor__/clear_features, law checks in the driver)."""
from vlib import env, gens, refcat, contracts
from vlib.runner import shard_rng

ID = 'C13'
LEVEL = 'exploration'
RULE = ('cases are pairs/triples of category values: every value with <= 3 atoms over a small alphabet (both feature systems) '
        'is paired with an independently rebuilt copy, with each single-point mutation of it (feature, base, slash, sub-tree) '
        'and with random values; near-miss strings (extra brackets, blanks, changed feature) for string comparison; '
        'random subsets of feature names for erasure. distinct = fingerprint of the pair; non-trivial = the two values are '
        'equal or have the same feature-blind structure.')
ASSUMPTIONS = ['reference structure/erasure in vlib/refcat.py', 'feature names to erase are unary feature values',
               'values are read through the public attributes base/feature/left/slash/right']
REQUIRED_MONITORS = {'contract:__eq__': 1000, 'contract:__xor__': 1000, 'contract:clear_features': 1000,
                     'law:hash': 500, 'law:dict-lookup': 500, 'law:xor-transitive': 100,
                     'law:hash-after-pickle': 100, 'law:shared-parts': 1000}
NSHARDS = 14
FEATS = (None, 'X', 'nb', 'dcl')


def shards(tier, seed):
    return [{'name': f's{k}', 'k': k, 'n': NSHARDS, 'budget_s': 40 if tier == 'quick' else 420,
             'stride': 7 if tier == 'quick' else 1} for k in range(NSHARDS)] + [{'name': 'pickle', 'kind': 'pickle', 'budget_s': 60}]


def run_pickle(spec, R):
    """categories that were hashed and pickled in an interpreter with another string-hash seed (a worker process started
    afresh, a cache on disk) must still be found by equal categories built here"""
    import os
    import pickle
    import subprocess
    import sys
    atoms = _atoms()
    by_n = gens.enumerate_values(atoms, 2)
    vals = (by_n[1] + by_n[2])[::5][:400]
    code = ('import sys, pickle; sys.path.insert(0, %r); sys.path.insert(1, %r)\n'
            'from vlib import env, refcat; env.install()\n'
            'vals = pickle.loads(sys.stdin.buffer.read())\n'
            'objs = [refcat.from_ref(v) for v in vals]\n'
            'd = {o: i for i, o in enumerate(objs)}          # hashed there\n'
            'sys.stdout.buffer.write(pickle.dumps(objs))\n' % (env.VERIF, os.path.join(env.VERIF, '.deps')))
    for hs in (1, 4242):
        p = subprocess.run([sys.executable, '-c', code], input=pickle.dumps(vals), capture_output=True,
                           env=dict(os.environ, PYTHONHASHSEED=str(hs), VERIF_REPO=env.REPO))
        if p.returncode != 0:
            R.inconclusive_because('pickle helper failed: ' + p.stderr.decode()[-300:])
            return
        objs = pickle.loads(p.stdout)
        table = {o: i for i, o in enumerate(objs)}
        for i, v in enumerate(vals):
            fresh = refcat.from_ref(v)
            R.case(('pickle', hs, v), True)
            R.count('law:hash-after-pickle')
            if not (objs[i] == fresh) or hash(objs[i]) != hash(fresh) or table.get(fresh) != i:
                R.violation('cat:eq-hash', f'a category hashed and pickled under PYTHONHASHSEED={hs} is not found by an equal category built '
                            f'in this process: {refcat.ref_print(v)}', {'a': refcat.ref_print(v), 'hashseed': hs})
                return


def _atoms():
    ja = gens.ja_atoms()
    odd = [('A', 'conj', ('U', 'X')), ('A', ',', ('U', 'nb')), ('A', 'LRB', ('U', 'dcl'))]      # buildable, though no text spells them
    return gens.en_atoms(feats=FEATS, bases=('S', 'NP', 'N'), punct=('conj', ',')) + ja[:2] + ja[4:6] + ja[7:9] + ja[10:12] + odd


def mutations(v, rng, atoms):
    """single-point mutations of v"""
    out = []

    def paths(x, p=()):
        yield p, x
        if x[0] == 'F':
            yield from paths(x[1], p + (1,))
            yield from paths(x[3], p + (3,))

    def put(x, p, new):
        if not p:
            return new
        lst = list(x)
        lst[p[0]] = put(x[p[0]], p[1:], new)
        return tuple(lst)

    for p, sub in paths(v):
        if sub[0] == 'A':
            f = sub[2]
            if f is None or f[0] == 'U':
                for g in FEATS + ('b', 'x', 'DCL', 'Nb', 'dcl '.strip() + '2'):
                    nf = None if g is None else ('U', g)
                    if nf != f:
                        out.append(put(v, p, ('A', sub[1], nf)))
            else:
                kvs = list(f[1])
                i = rng.randrange(3)
                kvs[i] = (kvs[i][0], 'X1' if kvs[i][1] != 'X1' else 'zz')
                out.append(put(v, p, ('A', sub[1], ('T', tuple(kvs)))))
                kvs2 = list(f[1])
                kvs2[0], kvs2[1] = kvs2[1], kvs2[0]
                out.append(put(v, p, ('A', sub[1], ('T', tuple(kvs2)))))
            out.append(put(v, p, ('A', 'PP' if sub[1] != 'PP' else 'S', sub[2])))
            out.append(put(v, p, ('F', sub, '/', sub)))
        else:
            for s in '/\\|':
                if s != sub[2]:
                    out.append(put(v, p, ('F', sub[1], s, sub[3])))
            out.append(put(v, p, ('F', sub[3], sub[2], sub[1])))
            out.append(put(v, p, sub[1]))
    return out


def near_miss_strings(v, rng):
    t = refcat.ref_print(v)
    out = [t, f'({t})', t + ' ', ' ' + t, t.replace('(', '<').replace(')', '>') if '(' in t else t + ')',
           t.replace('[', '[ ') if '[' in t else t + '[X]', t.replace('/', '\\') if '/' in t else t.replace('\\', '/'),
           refcat.decorate(v, rng), t.lower() if t.lower() != t else t.upper()]
    out.insert(1, refcat.ref_print(refcat.blind(v)))                            # the same category without its features
    if v[0] == 'F':
        out.append(f'{refcat.ref_print(v[1])}{v[2]}{refcat.ref_print(v[3])}')   # operands unbracketed
    return out


def share(b, a, A):
    """the value b built so that it re-uses the objects of A (the built a) wherever the two agree: values made by rule
    application or by the / | \\ operators share their parts by identity, values made by the reader never do"""
    from depccg.cat import Functor
    if a == b:
        return A
    if b[0] == 'A' or a[0] == 'A':
        return refcat.from_ref(b)
    return Functor(share(b[1], a[1], A.left), b[2], share(b[3], a[3], A.right))


def check_pair(a, b, R, rng):
    A, B = refcat.from_ref(a), refcat.from_ref(b)
    if a[0] == 'F' and a[1] == a[3] and b[0] == 'F':
        # a modifier built from ONE object (x / x, y | y): comparisons must not depend on that
        from depccg.cat import Functor
        part = refcat.from_ref(a[1])
        M = Functor(part, a[2], part)
        R.count('law:one-object-modifier')
        try:
            if bool(M == B) != (a == b) or bool(B == M) != (a == b) or bool(M ^ B) != (refcat.blind(a) == refcat.blind(b)) \
                    or bool(B ^ M) != (refcat.blind(a) == refcat.blind(b)):
                R.violation('cat:xor', f'comparison with a modifier whose two parts are one object is wrong: '
                            f'{refcat.ref_print(a)} vs {refcat.ref_print(b)}', {'a': refcat.ref_print(a), 'b': refcat.ref_print(b), 'one_object': True})
        except Exception as e:
            R.violation('cat:eq-hash', f'comparison raised {e!r}', {'a': refcat.ref_print(a), 'b': refcat.ref_print(b), 'one_object': True})
    if a != b and a[0] == 'F' and b[0] == 'F':
        S = share(b, a, A)
        R.count('law:shared-parts')
        try:
            if (A == S) or (S == A) or not (A != S) or hash(A) == hash(S) and S in {A: 1}:
                R.violation('cat:eq-hash', f'different values sharing their equal parts by identity compare equal: '
                            f'{refcat.ref_print(a)} vs {refcat.ref_print(b)}', {'a': refcat.ref_print(a), 'b': refcat.ref_print(b), 'shared': True})
            if bool(A ^ S) != (refcat.blind(a) == refcat.blind(b)):
                R.violation('cat:xor', f'feature-blind comparison of values sharing parts by identity is wrong: '
                            f'{refcat.ref_print(a)} vs {refcat.ref_print(b)}', {'a': refcat.ref_print(a), 'b': refcat.ref_print(b), 'shared': True})
        except Exception as e:
            R.violation('cat:eq-hash', f'comparison raised {e!r}', {'a': refcat.ref_print(a), 'b': refcat.ref_print(b), 'shared': True})
    same = a == b
    blind_same = refcat.blind(a) == refcat.blind(b)
    R.case((a, b), same or blind_same)
    wit = {'a': refcat.ref_print(a), 'b': refcat.ref_print(b)}
    try:
        e1, e2 = A == B, B == A          # contracts compare each with the reference
        n1 = A != B
        x1, x2 = A ^ B, B ^ A
    except Exception as e:
        R.violation('cat:eq-hash', f'comparison raised {e!r}', wit)
        return
    if bool(e1) != bool(e2) or bool(n1) == bool(e1):
        R.violation('cat:eq-hash', f'== not symmetric or != inconsistent on {wit}', wit)
    if bool(x1) != bool(x2):
        R.violation('cat:xor', f'^ not symmetric on {wit}', wit)
    if same:
        R.count('law:hash')
        if hash(A) != hash(B):
            R.violation('cat:eq-hash', f'equal values hash differently: {wit}', wit)
        # reading a value (its text, its arity, its arguments, its features) between storing and looking up changes nothing
        held = {A: 1}
        for v in (A, B):
            try:
                str(v), repr(v), v.nargs, v.arg(0), v.arg(1), v.is_functor, v.is_atomic, v.clear_features('X')
                if v.is_functor:
                    v.left, v.right, v.slash, v.is_function_application
            except Exception:
                pass
        R.count('law:lookup-after-observation')
        if held.get(B) != 1 or held.get(A) != 1 or hash(A) != hash(B) or not (A == B):
            R.violation('cat:eq-hash', f'a dictionary keyed by a value no longer finds it (or an equal one) after the values were '
                        f'only read: {wit}', dict(wit, observed=True))
        R.count('law:dict-lookup')
        d, s = {A: 1}, {A}
        if d.get(B) != 1 or B not in s or (A, A) not in {(B, B)}:
            R.violation('cat:eq-hash', f'dict/set keyed by an equal value does not find it: {wit}', wit)
        if not x1:
            R.violation('cat:xor', f'equal values are not feature-blind equal: {wit}', wit)
    else:
        d = {A: 1}
        R.count('law:dict-lookup')
        if B in d:
            R.violation('cat:eq-hash', f'dict keyed by a different value finds it: {wit}', wit)


def run(spec, R):
    env.install()
    contracts.bind(R)
    if spec.get('kind') == 'pickle':
        return run_pickle(spec, R)
    contracts.install_value_contracts()
    rng = shard_rng(ID, spec['seed'], spec['name'])
    atoms = _atoms()
    by_n = gens.enumerate_values(atoms, 3)
    allv = by_n[1] + by_n[2] + by_n[3]
    R.extra['values_le3_atoms_total'] = len(allv)
    names_pool = ('X', 'nb', 'dcl', 'b', 'zz', 'nm', 'mod')
    start = (spec['k'] + spec['seed']) % spec['n']
    picked = allv[start::spec['n']][::spec['stride']] if len(allv) > 4000 else allv
    if spec['k'] == 0:
        picked = by_n[1] + picked                 # every atom of the alphabet, whatever the sampling
    for i, a in enumerate(picked):
        A = refcat.from_ref(a)
        check_pair(a, a, R, rng)                                   # independently rebuilt equal copy
        muts = mutations(a, rng, atoms)
        for b in (muts if len(muts) <= 12 else rng.sample(muts, 12)):
            check_pair(a, b, R, rng)
        check_pair(a, rng.choice(allv), R, rng)
        # the same value as the reader builds it from some spelling with redundant brackets and blanks
        if i % 2 == 0:
            from depccg.cat import Category
            spelled = refcat.decorate(a, rng)
            canon = refcat.ref_print(a)
            try:
                P = Category.parse(spelled)
            except Exception:
                P = None                      # which texts are readable is C05's business (punctuation atoms take no feature)
                R.count('law:parsed-value:text-not-readable')
            try:
                if P is None:
                    raise StopIteration
                R.count('law:parsed-value')
                if not (P == A) or not (A == P) or hash(P) != hash(A) or {P: 1}.get(A) != 1:
                    R.violation('cat:eq-hash', f'the value read from {spelled!r} is not equal to / does not hash like the built one',
                                {'a': canon, 'text': spelled})
                # contract on ==: a string compares equal exactly when it is the canonical text, however the value was made
                if not (P == canon) or (spelled != canon and (P == spelled)):
                    R.violation('cat:string-eq', f'value read from {spelled!r}: == {canon!r} is {P == canon}, == {spelled!r} is {P == spelled}',
                                {'a': canon, 'text': spelled})
            except StopIteration:
                pass
            except Exception as e:
                R.violation('cat:string-eq', f'comparing the value read from {spelled!r} raised {e!r}', {'a': canon, 'text': spelled})
        # strings
        for s in near_miss_strings(a, rng)[:6 if i % 3 else 10]:
            R.case((a, 'str', s), True)
            try:
                r1 = A == s                                          # contract: equal iff s is the canonical text
                if bool(A != s) == bool(r1):
                    R.violation('cat:string-eq', f'== and != agree on the string {s!r}', {'a': refcat.ref_print(a), 's': s})
            except Exception as e:
                R.violation('cat:string-eq', f'comparison with {s!r} raised {e!r}', {'a': refcat.ref_print(a), 's': s})
        # ^ transitivity on a feature-blind class
        fam = [a] + [m for m in muts if refcat.blind(m) == refcat.blind(a)][:3]
        if len(fam) >= 3:
            R.count('law:xor-transitive')
            X, Y, Z = (refcat.from_ref(v) for v in fam[:3])
            if not ((X ^ Y) and (Y ^ Z) and (X ^ Z)):
                R.violation('cat:xor', 'feature-blind comparison is not transitive/reflexive on a feature-blind class',
                            {'values': [refcat.ref_print(v) for v in fam[:3]]})
        # erasure laws
        F = tuple(rng.sample(names_pool, rng.randint(0, 3)))
        G = tuple(rng.sample(names_pool, rng.randint(0, 2)))
        trip = [refcat.feat_print(x[2]) for x in refcat.atoms(a) if x[2] is not None and x[2][0] == 'T']
        if trip and rng.random() < 0.3:
            F = F + (rng.choice(trip),)               # a three-part feature named by its own text
        unary = [x[2][1] for x in refcat.atoms(a) if x[2] is not None and x[2][0] == 'U' and x[2][1]]
        if unary and rng.random() < 0.3:
            # names that only resemble a feature of the value (a proper prefix, a suffix, an extension) erase nothing
            f = rng.choice(unary)
            F = F + tuple(n for n in (f[:rng.randint(1, len(f))][:-1] or None, f[1:] or None, f + 'x') if n and rng.random() < 0.6)
        R.case((a, 'clear', F, G), a[0] == 'F')
        try:
            c1 = A.clear_features(*F)                                # contract: equals reference erasure
            c11 = c1.clear_features(*F)
            cfg = A.clear_features(*(F + G))
            c12 = c1.clear_features(*G)
        except Exception as e:
            R.violation('cat:clear-features', f'clear_features raised {e!r}', {'a': refcat.ref_print(a), 'F': F, 'G': G})
            continue
        if not (c11 == c1) or refcat.to_ref(c11) != refcat.to_ref(c1):
            R.violation('cat:clear-features', 'erasure is not idempotent', {'a': refcat.ref_print(a), 'F': F})
        if refcat.to_ref(cfg) != refcat.to_ref(c12):
            R.violation('cat:clear-features', 'clear(F+G) != clear(F).clear(G)', {'a': refcat.ref_print(a), 'F': F, 'G': G})
        if refcat.to_ref(A) != a:
            R.violation('cat:clear-features', 'erasure changed its receiver', {'a': refcat.ref_print(a), 'F': F})
        if i < 2:
            R.sample({'a': refcat.ref_print(a), 'mutations': [refcat.ref_print(m) for m in muts[:4]], 'erase': F})
        if i % 64 == 0 and R.out_of_time():
            R.extra['cut_short'] = 1
            break
    if spec['tier'] == 'thorough':
        # beyond the exhaustive bound: random values up to 7 atoms against their copies and mutations
        j = 0
        while not R.out_of_time():
            a = gens.random_value(rng, atoms, 7)
            check_pair(a, a, R, rng)
            muts = mutations(a, rng, atoms)
            for b in rng.sample(muts, min(len(muts), 8)):
                check_pair(a, b, R, rng)
            F = tuple(rng.sample(names_pool, rng.randint(0, 3)))
            try:
                refcat.from_ref(a).clear_features(*F)
            except Exception as e:
                R.violation('cat:clear-features', f'clear_features raised {e!r}', {'a': refcat.ref_print(a), 'F': F})
            j += 1
            if j >= 150000:
                break
        R.extra['deep_values_checked'] = j

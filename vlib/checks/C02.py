"""C02 — every returned parse is a derivation licensed by grammar and input."""
from vlib import search
from vlib.checks import _searchcommon as SC

ID = PROP = 'C02'
LEVEL = 'exploration'
RULE = ('cases as for C01 plus n-best 2..10, grammars whose rules create categories beyond the input list, duplicate result '
        'categories with different labels, root-less/unparseable sentences and one-word sentences with unary chains; every tree of '
        'every returned list is validated structurally by re-querying the grammar callable (not the search cache): leaves = input '
        'token objects in order with admitted tags, every node a grammar result for its children, allowed root, no unary at the '
        'root of a multi-word sentence, and membership in the reference enumeration. distinct = fingerprint of (grammar, matrices, '
        'config); non-trivial = a parse was returned for a sentence of >= 2 words.')
ASSUMPTIONS = SC.ASSUMPTIONS + ['valgrind memcheck reports are kept only if a frame lies inside the shim / parsing.h']
REQUIRED_MONITORS = {'monitor:tree-validated': 500, 'monitor:label-checked': 500, 'monitor:nbest-vs-enumeration': 100,
                     'valgrind:shards-completed': 1}
prepare = SC.prepare


def shards(tier, seed):
    out = SC.shards(tier, seed, q_cases=300)
    q = tier == 'quick'
    # uninitialised reads are invisible to ASan/UBSan: a small share of the workload runs under valgrind memcheck
    out += [{'name': f'valgrind{k}', 'variant': 'vg', 'build': 'vg', 'valgrind': True, 'cases': 10 if q else 250,
             'budget_s': 30 if q else 600, 'timeout': 3000, 'kind': 'synthetic'} for k in range(1 if q else 4)]
    return out


def gen(rng, spec):
    r = rng.random()
    if r < 0.45:
        return search.gen_case(rng, nbest=rng.choice((2, 3, 5, 10)), max_n=5, sparse=True)
    if r < 0.52:
        return search.extreme_rows(rng, search.gen_case(rng, beam=True, max_n=5, family='softmax'))
    if r < 0.6:
        nb = rng.choice((1, 1, 2, 3, 5))
        return search.gen_case(rng, beam=True, max_n=5 if nb > 1 else 6, nbest=nb, sparse=nb > 1)
    if r < 0.72:
        return search.gen_case(rng, max_n=5, many_cats=True, nbest=rng.choice((1, 1, 2)))
    if r < 0.76:
        return search.gen_case(rng, max_n=1)
    if r < 0.79:
        case = search.gen_case(rng, max_n=4, nbest=rng.choice((1, 2)), sparse=True)
        case['config']['pruning_size'] = 0          # an empty beam admits no supertag at all: only the placeholder can come back
        return case
    return search.gen_case(rng, max_n=6)


def gen_vg(rng, spec):
    # under memcheck a single search step costs ~50x: keep every case small, so that the shard's time budget (checked after
    # every case) is honoured and the wall-clock watchdog stays far away
    case = gen(rng, spec)
    case['config']['max_step'] = min(case['config']['max_step'], 3000)
    return case


def run(spec, R):
    if spec.get('valgrind'):
        return SC.run(ID, PROP, spec, R, gen_vg, lambda s, c: s.get('parsed') and max(len(x[0]) for x in c['sentences']) >= 2)
    SC.run(ID, PROP, spec, R, gen, lambda s, c: s.get('parsed') and max(len(x[0]) for x in c['sentences']) >= 2)


def replay(w, R):
    SC.replay(PROP, w, R)

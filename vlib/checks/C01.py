"""C01 — A* returns the highest-scoring derivation; agenda priorities never increase."""
from vlib import search
from vlib.checks import _searchcommon as SC

ID = PROP = 'C01'
LEVEL = 'exploration'
RULE = ('a case is one sentence (1-7 words, 2-6 tags) with a random head-uniform table grammar (0-3 results per pair, acyclic unary '
        'chains, random root set), score family in {dyadic uniform, dyadic deceptive, dyadic ties, dyadic/64, log-softmax}, unary '
        'penalty in {0,1/8,1/2,1}, pruning/beta settings, arcs of probability 0 (-inf), parsed by the real parsing.run->parsing.pyx->parsing.h (plain and '
        'ASan+UBSan builds) with the pop hook on; plus real-grammar sentences. Monitors: pop priorities non-increasing (exact for '
        'dyadic scores), first parse == exhaustive-CKY optimum, failure only if no derivation. distinct = fingerprint of '
        '(grammar, matrices, config); non-trivial = the reference enumerates >= 2 rooted derivations.')
ASSUMPTIONS = SC.ASSUMPTIONS
REQUIRED_MONITORS = {'monitor:priority-monotone': 200, 'monitor:optimality': 200, 'monitor:failure-legitimacy': 20,
                     'hook:pops': 10000}
prepare = SC.prepare


def shards(tier, seed):
    return SC.shards(tier, seed)


def gen(rng, spec):
    r = rng.random()
    if r < 0.07:
        return search.extreme_rows(rng, search.gen_case(rng, beam=rng.random() < 0.5, max_n=5, family='softmax'))
    if r < 0.15:
        return search.gen_case(rng, beam=True, max_n=6)
    if r < 0.25:
        # a step budget of the order of what the sentence needs: failure is legitimate only when the budget is really used up
        case = search.gen_case(rng, max_n=4, sparse=True)
        case['config']['max_step'] = rng.choice((1, 2, 3, 4, 5, 6, 8, 10, 12, 15, 20, 30, 50))
        return case
    if r < 0.33:
        return search.gen_case(rng, max_n=5, many_cats=True)      # category ids far beyond the tag list
    if r < 0.38:
        return search.neginf_arcs(rng, search.gen_case(rng, max_n=5, sparse=rng.random() < 0.5))   # arcs of probability 0
    if r < 0.41:
        case = search.gen_case(rng, max_n=5, sparse=rng.random() < 0.5)
        case['config']['max_step'] = rng.choice((2**32 - 1, 2**31, 2**31 + 7))      # "no limit" as callers spell it
        return case
    return search.gen_case(rng, max_n=7 if r < 0.5 else 5, sparse=r > 0.8)


def run(spec, R):
    if spec['kind'] == 'synthetic' and spec['name'] in ('plain0', 'asan0'):
        from vlib.runner import shard_rng
        from vlib.checks.C09 import long_sentence
        long_sentence(search.Engine(R, spec['variant'], PROP), R, shard_rng(ID, spec['seed'], spec['name'] + '-long'))
    SC.run(ID, PROP, spec, R, gen, lambda s, c: (s.get('derivations') or 0) >= 2)


def replay(w, R):
    SC.replay(PROP, w, R)

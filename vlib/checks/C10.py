"""C10 — n-best results are the k best distinct derivations, best first."""
from vlib import search
from vlib.checks import _searchcommon as SC

ID = PROP = 'C10'
LEVEL = 'exploration'
RULE = ('a case is a sentence small enough for the reference to enumerate ALL derivations (<= 5 words, sparse head-uniform table '
        'grammar with acyclic unary rules, heavy score ties included) parsed with k in {1,2,3,5,10,50, #derivations, #derivations+3}, pruning_size 50, #tags, #tags+-1 or inside the tag list; '
        'monitors: count == min(k, #derivations), trees pairwise different, scores non-increasing, returned scores == the k largest '
        'derivation scores (exact for dyadic families), every tree a member of the enumeration, first score == the 1-best run. '
        'distinct = fingerprint of (grammar, matrices, k); non-trivial = >= 2 derivations and k >= 2.')
ASSUMPTIONS = SC.ASSUMPTIONS
REQUIRED_MONITORS = {'monitor:nbest-vs-enumeration': 300, 'monitor:first-vs-1best': 100}
prepare = SC.prepare


def shards(tier, seed):
    return SC.shards(tier, seed, q_cases=120, real=False)


def gen(rng, spec):
    case = search.gen_case(rng, nbest=rng.choice((1, 2, 2, 3, 5, 10, 50)), max_n=5, sparse=True, many_cats=rng.random() < 0.12,
                           family=rng.choice(('uniform', 'ties', 'ties', 'deceptive', 'softmax', 'uniform64')))
    T = case['sentences'][0][1].shape[1]
    # mostly the whole tag list (the enumeration covers every derivation); sometimes a beam that ends exactly at, one before
    # or inside the list, so that the k best derivations need the last admitted tag of a word
    case['config']['pruning_size'] = rng.choice((50, 50, T, T, T + 1, max(1, T - 1), rng.randint(1, T)))
    if rng.random() < 0.08:
        search.extreme_rows(rng, case)
    elif rng.random() < 0.06:
        search.neginf_arcs(rng, case)          # derivations of score -inf are derivations: they count towards min(k, N)
    return case


def per_case(E, case, sums):
    """k = #derivations and #derivations+3, and the first score against the 1-best run"""
    s = sums[0] if sums else {}
    d = s.get('derivations')
    if not d or not s.get('parsed'):
        return
    R = E.R
    if d <= 200 and R.monitors.get('monitor:first-vs-1best', 0) % 3 == 0:
        for k in (d, d + 3):
            c2 = dict(case, config=dict(case['config'], nbest=k))
            search.run_and_check(E, c2)
    out1 = E.run(case, nbest=1)
    outk = E.run(case)
    if out1['error'] or outk['error']:
        return
    R.count('monitor:first-vs-1best')
    a, b = float(out1['results'][0][0].score), float(outk['results'][0][0].score)
    if abs(a - b) > search.tol_for(case, a):
        E.violation('nbest:first-differs-from-1best', f'first of the {case["config"]["nbest"]}-best list scores {b!r}, the 1-best answer {a!r}',
                    {'case': search.case_to_json(case)})


def run(spec, R):
    SC.run(ID, PROP, spec, R, gen, lambda s, c: (s.get('derivations') or 0) >= 2 and c['config']['nbest'] >= 2, per_case)


def replay(w, R):
    SC.replay(PROP, w, R)

"""C08 — AUTO text written by depccg reads back to the same tree (real to_string('auto') -> real read_auto -> real auto_of)."""
import copy
import os
import tempfile

from vlib import env, treegen, codecs, fmtcheck
from vlib.runner import shard_rng, stable_hash

ID = 'C08'
LEVEL = 'exploration'
RULE = ('a case is one tree (grammar-licensed over the English/Japanese lexicons, or arbitrary with either head direction at every node) '
        'whose tokens are printable non-blank text without backslashes, incl. tokens that are or contain brackets and angle '
        'characters; the AUTO file written by the real to_string is read by the real read_auto; categories, shape, head flags, '
        'POS, words (escaped spelling) and record names are compared, the read tree is re-printed by the real auto_of (string '
        'equality with the original line) and the last column of the real conll output is concatenated (same line). distinct = '
        'fingerprint of the tree; non-trivial = >= 2 leaves.')
ASSUMPTIONS = ['token domain: no blank, no backslash, not ending in )[conj] / ][conj], not the literal ((S[b]\\NP)/NP)/ (the CCGbank '
               'repairs of read_auto apply to every field by design)']
REQUIRED_MONITORS = {'read_auto:trees': 300, 'reprint:compared': 300, 'conll:concatenated': 300, 'tokens:with-brackets-or-angles': 50,
                     'read_auto:long-chains': 2}


def shards(tier, seed):
    q = tier == 'quick'
    return [{'name': f'{lang}{k}', 'lang': lang, 'cases': 120 if q else 12000, 'budget_s': 40 if q else 600}
            for lang in ('en', 'ja') for k in range(6)]


def same_tree(src, got, path='root'):
    """source depccg Tree vs read depccg Tree -> list of (kind, msg)"""
    out = []
    if src.is_leaf != got.is_leaf or len(src.children) != len(got.children):
        return [('shape', f'{path}: shape differs')]
    if not (src.cat == got.cat) or fmtcheck.cat_text(src.cat) != fmtcheck.cat_text(got.cat):
        out.append(('category', f'{path}: category {got.cat!s}, expected {src.cat!s}'))
    if src.is_leaf:
        want_w = fmtcheck.escaped_word(src.token['word'])
        if got.token.get('word') != want_w:
            out.append(('words', f'{path}: word {got.token.get("word")!r}, expected {want_w!r}'))
        want_p = src.token.get('pos', 'POS')
        if got.token.get('pos') != want_p:
            out.append(('attribute', f'{path}: pos {got.token.get("pos")!r}, expected {want_p!r}'))
        return out
    if not src.is_unary and bool(src.head_is_left) != bool(got.head_is_left):
        out.append(('head', f'{path}: head_is_left {got.head_is_left}, expected {src.head_is_left}'))
    for i, (a, b) in enumerate(zip(src.children, got.children)):
        out += same_tree(a, b, f'{path}/{i}')
    return out


def long_chains(R, lang, rng, path, to_string, auto_of, read_auto):
    """a 250-word sentence (the parser's default max_length) whose derivation is one chain: written, read back and printed
    again under the interpreter's default recursion limit"""
    from depccg.tree import ScoredTree
    token_fn = (lambda r: treegen.en_token(r, 'auto', 'auto')) if lang == 'en' else (lambda r: treegen.ja_token(r, 'auto'))
    for shape in ('right', 'left'):
        n = rng.choice((250, 249, 200))
        t = treegen.chain_tree(rng, lang, token_fn, n, shape)
        R.case(('long-chain', lang, shape, n), True)
        wit = {'lang': lang, 'words': n, 'shape': shape}
        try:
            with treegen.default_recursion_limit():
                text = to_string([[ScoredTree(t, -1.0)]], format='auto')
                with open(path, 'w', encoding='utf-8') as f:
                    f.write(text)
                got = list(read_auto(path))
                again = auto_of(got[0].tree) if len(got) == 1 else None
        except Exception as e:
            R.violation('read_auto:raises', f'writing/reading the {n}-word {shape}-branching derivation raised {e!r} '
                        f'(default recursion limit)', wit)
            continue
        R.count('read_auto:long-chains')
        line = [l for l in text.split('\n') if l and not l.startswith('ID=')]
        if again is None or len(line) != 1 or again != line[0]:
            R.violation('read_auto:reprint', f'{n}-word chain: the line read back does not print to the same line', wit)


def run(spec, R):
    lang = spec['lang']
    env.install(lang)
    env.stub_native_parsing()
    from depccg.printer import to_string
    from depccg.printer.auto import auto_of
    from depccg.tools.reader import read_auto
    rng = shard_rng(ID, spec['seed'], spec['name'])
    tmp = tempfile.mkdtemp(prefix='verif-c08-')
    path = os.path.join(tmp, 'x.auto')
    try:
        long_chains(R, lang, rng, path, to_string, auto_of, read_auto)
        for i in range(spec['cases']):
            batch = treegen.make_batch(rng, lang, 'auto', max_sentences=3, max_nbest=2, licensed_share=0.5,
                                       attr_domain='auto')
            flat = [st for trees in batch for st in trees]
            if rng.random() < 0.4:
                # head fields need not be the grammar's own (treebank files): flip some flags, also on derivable nodes
                from vlib.checks.C12 import flip_heads
                for st in flat:
                    flip_heads(st.tree, rng)
                R.count('trees:with-foreign-head-flags', len(flat))
            if lang == 'en' and rng.random() < 0.3:
                # categories with a conj feature look like the CCGbank artefact read_auto repairs, but are ordinary categories
                from depccg.cat import Category
                for st in flat:
                    for leaf in st.tree.leaves:
                        if rng.random() < 0.3:
                            leaf.cat = Category.parse(rng.choice(('NP[conj]', 'S[dcl]\\NP[conj]', 'N[conj]')))
            wit = {'lang': lang, 'batch': repr([treegen.tree_dump(st.tree) for st in flat])[:3000]}
            for st in flat:
                R.case(stable_hash(treegen.tree_dump(st.tree)), len(st.tree.leaves) >= 2)
                if any(any(c in t['word'] for c in '()[]{}<>') for t in st.tree.tokens):
                    R.count('tokens:with-brackets-or-angles')
            try:
                text = to_string(copy.deepcopy(batch), format='auto')
                ctext = to_string(copy.deepcopy(batch), format='conll')
            except Exception as e:
                R.violation('auto:raises', f'to_string raised {e!r}', wit)
                continue
            with open(path, 'w', encoding='utf-8') as f:
                f.write(text)
            lines = [l for l in text.split('\n') if l and not l.startswith('ID=')]
            names = [l for l in text.split('\n') if l.startswith('ID=')]
            try:
                read = list(read_auto(path))
            except Exception as e:
                R.violation('read_auto:raises', f'read_auto raised {e!r} on text written by depccg', dict(wit, text=text[:1500]))
                continue
            if len(read) != len(flat):
                R.violation('read_auto:shape', f'{len(read)} trees read from {len(flat)} written', dict(wit, text=text[:1500]))
                continue
            try:
                crecs = codecs.decode_conll(ctext)
            except Exception as e:
                R.violation('conll:undecodable', f'conll output cannot be decoded: {e!r}', dict(wit, text=ctext[:1500]))
                crecs = None
            for k, (st, rr, line, name) in enumerate(zip(flat, read, lines, names)):
                R.count('read_auto:trees')
                w2 = dict(wit, line=line)
                for kind, msg in same_tree(st.tree, rr.tree)[:2]:
                    R.violation(f'read_auto:{kind}', msg, w2)
                if rr.name != name:
                    R.violation('read_auto:attribute', f'record name {rr.name!r}, expected {name!r}', w2)
                if [t.get('word') for t in rr.tokens] != [fmtcheck.escaped_word(t['word']) for t in st.tree.tokens]:
                    R.violation('read_auto:words', 'token list returned by the reader differs from the words', w2)
                try:
                    again = auto_of(rr.tree)
                except Exception as e:
                    R.violation('read_auto:reprint', f'auto_of on the read tree raised {e!r}', w2)
                    continue
                R.count('reprint:compared')
                if again != line:
                    R.violation('read_auto:reprint', f'reprinted line differs:\n {again}\n {line}', w2)
                if crecs is not None and k < len(crecs):
                    R.count('conll:concatenated')
                    if crecs[k]['line'] != line:
                        R.violation('conll:fragments', f'conll fragments concatenate to\n {crecs[k]["line"]}\n not to\n {line}', w2)
            if i < 2:
                R.sample({'lang': lang, 'auto_line': lines[0][:300]})
            if R.out_of_time():
                break
    finally:
        import shutil
        shutil.rmtree(tmp, ignore_errors=True)

"""C05 — category text <-> value round trip (contracts on the real Category.parse / __str__,
reference reader/printer in vlib/refcat.py, exhaustive-bounded + random + shipped workloads)."""
from vlib import env, gens, refcat, contracts
from vlib.runner import shard_rng

ID = 'C05'
LEVEL = 'exploration'
RULE = ('cases are (value, text) pairs: every value with <= 3 atoms (quick; <= 4 sampled, thorough) over the alphabet '
        '{S,N,NP,PP}x{none,X,nb,dcl,b}, 4 punctuation atoms, 13 Japanese triple atoms, slashes / \\ |; for each value its '
        'canonical text and texts with random redundant round/angle brackets and blanks; bracket-dropping mutations '
        '(two slashes at one level, must be rejected); random values up to 12 atoms; every shipped category string. '
        'distinct = fingerprint of the text; non-trivial = the value has at least one slash.')
ASSUMPTIONS = ['reference reader/printer in vlib/refcat.py states the text grammar of the property',
               'blanks are space characters; punctuation atoms of cat.py are feature-less; feature text has no bracket/slash/blank']
REQUIRED_MONITORS = {'print:derived-from-printed-value': 1000, 'contract:Category.parse': 1000, 'contract:Category.__str__': 1000, 'must-reject': 50}

NSHARDS = 14


def shards(tier, seed):
    out = [{'name': f'exh{k}', 'kind': 'exh', 'k': k, 'n': NSHARDS, 'budget_s': 40 if tier == 'quick' else 400}
           for k in range(NSHARDS)]
    out.append({'name': 'deep', 'kind': 'deep', 'cases': 6000 if tier == 'quick' else 300000,
                'budget_s': 40 if tier == 'quick' else 400})
    out.append({'name': 'shipped', 'kind': 'shipped', 'budget_s': 120})
    out.append({'name': 'repotests', 'kind': 'repotests', 'budget_s': 300})
    return out


_DERIVE = [0]


def _check_value(v, rng, R, ndecor):
    from depccg.cat import Category
    real = refcat.from_ref(v)
    nontrivial = v[0] == 'F'
    try:
        text = str(real)                      # __str__ contract compares with the reference printer
    except Exception as e:
        R.case(('str', v), nontrivial)
        R.violation('cat:roundtrip', f'str() raised {e!r}', {'value': refcat.ref_print(v)})
        return
    # the same value built from fresh (equal, not identical) default objects, and a deep copy, must print the same text
    import copy
    for other in (_rebuild_fresh(v), copy.deepcopy(real)):
        R.count('print:fresh-or-copied-objects')
        try:
            if str(other) != text or not (other == real):
                R.violation('cat:roundtrip', f'an equal value built from fresh objects / a deep copy prints {str(other)!r}, not {text!r}',
                            {'value': refcat.ref_print(v)})
        except Exception as e:
            R.violation('cat:roundtrip', f'str() of a rebuilt/copied value raised {e!r}', {'value': refcat.ref_print(v)})
    # values derived from an already printed functor (dataclasses.replace, operators, .functor) are values of their own:
    # nothing of the source's text may travel with them
    _DERIVE[0] += 1
    if v[0] == 'F' and (ndecor >= 3 or _DERIVE[0] % 8 == 0):     # every small value, every 8th of the larger ones
        import dataclasses
        derived = []
        for sl in '/\\|':
            if sl != v[2]:
                derived.append((('F', v[1], sl, v[3]), lambda sl=sl: dataclasses.replace(real, slash=sl)))
        derived.append((('F', v[3], v[2], v[1]), lambda: dataclasses.replace(real, left=real.right, right=real.left)))
        derived.append((('F', v[1], v[2], v[1]), lambda: dataclasses.replace(real, right=real.left)))
        derived.append((('F', v, '/', v[1]), lambda: real / real.left))
        derived.append((('F', v[3], v[2], v[1]), lambda: real.functor(real.right, real.left)))
        for dv, build in derived:
            try:
                d = build()
            except Exception:
                R.count('derive:route-not-offered')
                continue
            R.count('print:derived-from-printed-value')
            try:
                dt = str(d)
                ok = refcat.to_ref(d) == dv and dt == refcat.ref_print(dv) and Category.parse(dt) == d
            except Exception as e:
                dt, ok = repr(e), False
            if not ok:
                R.violation('cat:roundtrip', f'value derived from printed {text!r} prints/reads as {dt!r}, expected {refcat.ref_print(dv)!r}',
                            {'value': refcat.ref_print(v), 'derived': refcat.ref_print(dv)})
    texts = [text] + [refcat.decorate(v, rng) for _ in range(ndecor)]
    for i, t in enumerate(texts):
        R.case(t, nontrivial)
        try:
            back = Category.parse(t)          # parse contract compares with the reference reader
        except Exception as e:
            R.violation('cat:roundtrip' if i == 0 else 'cat:redundant-brackets',
                        f'well-formed text {t!r} was rejected: {e!r}', {'text': t, 'value': refcat.ref_print(v)})
            continue
        R.count('parse-back')
        if not (back == real) or refcat.to_ref(back) != v:
            R.violation('cat:roundtrip' if i == 0 else 'cat:redundant-brackets',
                        f'{t!r} reads back as {back!s}, not {text}', {'text': t, 'value': refcat.ref_print(v)})
        elif str(back) != text:
            R.violation('cat:redundant-brackets', f'{t!r} prints as {back!s}, not {text}', {'text': t})
    # ambiguity: drop one bracket pair around a functor operand -> two slashes at one level
    if nontrivial and refcat.natoms(v) >= 3:
        for t in _drop_brackets(text):
            if not refcat.has_two_slashes_at_one_level(t):
                continue
            R.case(t, True)
            R.count('must-reject')
            try:
                got = Category.parse(t)       # the contract also fires here if it returns
            except Exception:
                R.count('rejected')
                continue
            R.violation('cat:ambiguous-accepted', f'{t!r} was read as {got!s}', {'text': t, 'got': str(got)})


def _rebuild_fresh(v):
    from depccg.cat import Atom, Functor, UnaryFeature, TernaryFeature
    if v[0] == 'A':
        f = v[2]
        if f is None:
            return Atom(v[1], UnaryFeature())           # a new default-feature object, not the shared default instance
        if f[0] == 'U':
            return Atom(v[1], UnaryFeature(f[1]))
        return Atom(v[1], TernaryFeature(*[tuple(kv) for kv in f[1]]))
    return Functor(_rebuild_fresh(v[1]), v[2], _rebuild_fresh(v[3]))


def _drop_brackets(text):
    """texts obtained by deleting one matching '(' ')' pair"""
    out, stack = [], []
    for i, ch in enumerate(text):
        if ch == '(':
            stack.append(i)
        elif ch == ')':
            j = stack.pop()
            out.append(text[:j] + text[j + 1:i] + text[i + 1:])
    return out


def run(spec, R):
    env.install()
    contracts.bind(R)
    contracts.install_cat_contracts(with_str=True)
    from depccg.cat import Category
    rng = shard_rng(ID, spec['seed'], spec['name'])
    tier = spec['tier']
    atoms = gens.en_atoms(feats=(None, 'X', 'nb', 'dcl', 'b')) + gens.ja_atoms()
    if spec['kind'] == 'deep':
        # feature values that are spelled like punctuation categories or contain other legal characters
        atoms = atoms + [('A', b, ('U', f)) for b in ('S', 'NP') for f in ('conj', 'LRB', 'RRB', 'a=b', 'x,y', 'thr', '*START*')]
        atoms = atoms + [('A', 'NP', ('T', (('mod', 'nm'), ('mod', 'nm'), ('fin', 'f'))))]      # a repeated key is still three parts
        # the three parts are kept in the order they are written, whatever their keys
        atoms = atoms + [('A', 'NP', ('T', (('mod', 'nm'), ('case', 'nc'), ('fin', 't')))), ('A', 'S', ('T', (('fin', 'f'), ('form', 'base'), ('mod', 'X1')))),
                         ('A', 'S', ('T', (('form', 'X2'), ('mod', 'adn'), ('fin', 'f')))), ('A', 'NP', ('T', (('fin', 't'), ('case', 'ga'), ('mod', 'nm'))))]
    if spec['kind'] == 'repotests':
        from vlib import repotests
        repotests.run_repo_tests(R, ['tests/test_cat.py'], lambda: None)
        return
    if spec['kind'] == 'exh':
        by_n = gens.enumerate_values(atoms, 3)
        idx = 0
        for n in (1, 2, 3):
            for v in by_n[n]:
                idx += 1
                if idx % spec['n'] != spec['k']:
                    continue
                _check_value(v, rng, R, 1 if n == 3 else 3)
                if idx % 512 == 0 and R.out_of_time():
                    R.extra['exhaustive_cut_short'] = 1
                    break
        R.extra['values_le3_atoms_total'] = sum(len(by_n[n]) for n in (1, 2, 3))
        if tier == 'thorough':
            for _ in range(120000):
                v = gens.random_value(rng, atoms, 4)
                if refcat.natoms(v) == 4:
                    _check_value(v, rng, R, 1)
                if R.out_of_time():
                    break
        R.sample({'value': refcat.ref_print(by_n[3][spec['k']]), 'decorated': refcat.decorate(by_n[3][spec['k']], rng)}, 2)
    elif spec['kind'] == 'deep':
        for i in range(spec['cases']):
            v = gens.random_value(rng, atoms, 12)
            _check_value(v, rng, R, 2)
            if i < 2:
                R.sample({'value': refcat.ref_print(v), 'decorated': refcat.decorate(v, rng)})
            if R.out_of_time():
                break
    else:
        for src, strings in gens.shipped_strings().items():
            for s in strings:
                R.case((src, s), '/' in s or '\\' in s)
                R.hist('shipped_strings', src)
                try:
                    c = Category.parse(s)
                except Exception as e:
                    R.violation('data:unparseable-string', f'{src}: {s!r} rejected: {e!r}', {'source': src, 'text': s})
                    continue
                try:
                    ref = refcat.ref_parse(s)
                except refcat.RefSyntaxError as e:
                    R.violation('data:unparseable-string', f'{src}: shipped string {s!r} is not a well-formed category text ({e!r}); the '
                                f'reader accepted it silently', {'source': src, 'text': s})
                    continue
                printed = str(c)
                if refcat.ref_parse(printed) != ref or Category.parse(printed) != c:
                    R.violation('cat:roundtrip', f'{src}: {s!r} prints as {printed!r}', {'source': src, 'text': s})
                for _ in range(2):
                    t = refcat.decorate(ref, rng)
                    R.case(t, ref[0] == 'F')
                    try:
                        if Category.parse(t) != c:
                            R.violation('cat:redundant-brackets', f'{t!r} differs from {s!r}', {'text': t})
                    except Exception as e:
                        R.violation('cat:redundant-brackets', f'{t!r} rejected: {e!r}', {'text': t})


def replay(witness, R):
    env.install()
    contracts.bind(R)
    contracts.install_cat_contracts(with_str=True)
    from depccg.cat import Category
    t = witness.get('text')
    R.case(t, True)
    try:
        got = Category.parse(t)
        print('parse ->', got)
    except Exception as e:
        print('parse raised', repr(e))

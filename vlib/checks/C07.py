"""C07 — every output format encodes the same derivation (real to_string -> independent decoder per format)."""
import copy

from vlib import env, treegen, codecs, fmtcheck
from vlib.runner import shard_rng, stable_hash

ID = 'C07'
LEVEL = 'exploration'
RULE = ('a case is (batch, format): batches of 1-4 sentences x 1-3 n-best trees (grammar-licensed derivations over the shipped English/'
        'Japanese lexicons, and arbitrary well-formed trees; n-best trees share their tokens), tokens hostile within what the format '
        'can represent (brackets, quotes, slashes, < > &, CJK); each of the language\'s formats is rendered by the real to_string on a '
        'deep copy and decoded by an independent decoder; words, shape, categories (format spelling), labels, head flags, token '
        'attributes, offsets, conll head column and sentence/n-best numbering are compared. distinct = fingerprint of (batch, format); '
        'non-trivial = the batch has a tree with >= 2 leaves.')
ASSUMPTIONS = ['independent decoders in vlib/codecs.py state the formats (DESIGN 9.1)',
               'token domains per format: ptb - round brackets only as whole tokens; ja - no / { } and no -LRB- style spellings; '
               'prolog - pos/chunk/entity without quote/backslash (written unescaped by design of the format)']
FORMATS = {
    'en': ('auto', 'auto_extended', 'xml', 'jigg_xml', 'conll', 'json', 'ptb', 'deriv', 'html', 'prolog'),
    'ja': ('auto', 'deriv', 'ja', 'conll', 'html', 'jigg_xml', 'ptb', 'json', 'prolog'),
}
REQUIRED_MONITORS = dict({f'decoded:{f}': 50 for f in set(FORMATS['en']) | set(FORMATS['ja'])}, **{'rendered-flat-form': 100})
DECODERS = {
    'auto': lambda t, lang: codecs.decode_auto(t), 'auto_extended': lambda t, lang: codecs.decode_auto(t, True),
    'conll': lambda t, lang: codecs.decode_conll(t), 'xml': lambda t, lang: codecs.decode_xml(t),
    'jigg_xml': lambda t, lang: codecs.decode_jigg(t)[0], 'json': lambda t, lang: codecs.decode_json(t),
    'ptb': lambda t, lang: codecs.decode_ptb(t), 'deriv': lambda t, lang: codecs.decode_deriv(t),
    'html': lambda t, lang: codecs.decode_html(t),
    'prolog': lambda t, lang: codecs.decode_prolog_en(t) if lang == 'en' else codecs.decode_prolog_ja(t),
    'ja': lambda t, lang: codecs.decode_ja(t),
}
HAS_NBEST = ('xml', 'jigg_xml', 'json', 'html')


def shards(tier, seed):
    q = tier == 'quick'
    return [{'name': f'{lang}{k}', 'lang': lang, 'cases': 150 if q else 4000, 'budget_s': 45 if q else 600}
            for lang in ('en', 'ja') for k in range(8)]


def domain_for(fmt, lang):
    if fmt == 'ja':
        return 'ja'
    if fmt == 'ptb':
        return 'ptb'
    return 'any'


def check_rendering(R, batch, fmt, lang, text, wit):
    """decode `text` and compare with `batch`; returns True if everything agreed"""
    key = lambda kind: f'{fmt}:{kind}'      # noqa: E731
    try:
        recs = DECODERS[fmt](text, lang)
    except codecs.DecodeError as e:
        R.violation(key('undecodable'), f'{fmt} output cannot be decoded: {e}', dict(wit, output=text[:1500]))
        return False
    except Exception as e:
        R.violation(key('undecodable'), f'{fmt} output cannot be decoded: {e!r}', dict(wit, output=text[:1500]))
        return False
    R.count(f'decoded:{fmt}')
    if fmt == 'jigg_xml':
        for prob in codecs.decode_jigg(text)[1][:2]:
            R.violation(key('offset'), f'jigg_xml: {prob}', dict(wit, output=text[:1500]))
    want_seq = [(si, ni) for si, trees in enumerate(batch, 1) for ni, _ in enumerate(trees, 1)]
    got_seq = [(r['sentence'], r.get('nbest')) for r in recs]
    if fmt in HAS_NBEST:
        okseq = got_seq == want_seq
    else:
        okseq = [s for s, _ in got_seq] == [s for s, _ in want_seq]
    if not okseq:
        R.violation(key('numbering'), f'{fmt}: records are numbered {got_seq[:8]}, expected {want_seq[:8]}', dict(wit, output=text[:800]))
        return False
    ok = True
    flat = [st for trees in batch for st in trees]
    for st, rec in zip(flat, recs):
        exp = fmtcheck.expected(st.tree, fmt, lang)
        diffs = fmtcheck.compare(exp, rec['tree'], fmt)
        for kind, msg in diffs[:2]:
            R.violation(key(kind), f'{fmt}: {msg}', dict(wit, output=text[:1500]))
            ok = False
        if fmt == 'conll':
            want_heads = fmtcheck.conll_heads(st.tree)
            if rec['heads'] != want_heads:
                R.violation(key('conll-heads'), f'conll head column {rec["heads"]}, head flags imply {want_heads}', dict(wit, output=text[:1500]))
                ok = False
            ew = [l['word'] for l in codecs.leaves(exp)]
            if rec['words'] != ew or rec['cats'] != [l['cat'] for l in codecs.leaves(exp)]:
                R.violation(key('words'), f'conll word/category columns {rec["words"]} / {rec["cats"]} differ from the derivation', dict(wit, output=text[:1500]))
                ok = False
            if rec['lemmas'] != [t.get('lemma', '_') for t in st.tree.tokens]:
                R.violation(key('attribute'), 'conll lemma column differs from the tokens', dict(wit, output=text[:1500]))
                ok = False
        if fmt == 'html' and rec.get('header_words') is not None and rec['nbest'] == 1:
            want = ' '.join(t['word'] for t in st.tree.tokens)
            if rec['header_words'] != want:
                R.violation(key('words'), f'html sentence header shows {rec["header_words"]!r}, the words are {want!r}', dict(wit, output=text[:800]))
                ok = False
        if fmt == 'json' and rec.get('logprob') is not None and abs(rec['logprob'] - st.score) > 1e-9:
            R.violation(key('attribute'), f'json log_prob {rec["logprob"]} differs from the score {st.score}', wit)
            ok = False
    return ok


def dump_batch(batch):
    return [[(treegen.tree_dump(st.tree), st.score) for st in trees] for trees in batch]


def run(spec, R):
    lang = spec['lang']
    # the order depccg/__main__.py uses: the printer package is imported first, the language is chosen afterwards
    env.install()
    env.stub_native_parsing()
    from depccg.printer import to_string
    env.install(lang)
    rng = shard_rng(ID, spec['seed'], spec['name'])
    for i in range(spec['cases']):
        for fmt in FORMATS[lang]:
            dom = domain_for(fmt, lang)
            batch = treegen.make_batch(rng, lang, dom)
            wit = {'lang': lang, 'format': fmt, 'batch': repr(dump_batch(batch))[:3000]}
            R.case(stable_hash((fmt, dump_batch(batch))), any(len(st.tree.leaves) >= 2 for t in batch for st in t))
            work = copy.deepcopy(batch)
            try:
                text = to_string(work, format=(fmt + ' ').strip())       # a fresh string object, as a command line delivers it
            except Exception as e:
                R.violation(f'{fmt}:raises', f'to_string(format={fmt!r}) raised {e!r}', wit)
                continue
            R.count('rendered')
            ok = check_rendering(R, batch, fmt, lang, text, wit)
            if len(batch) == 1 and len(batch[0]) >= 2:
                # the flat call form: one sentence given as its n-best list; the same record numbering applies
                try:
                    flat = to_string(copy.deepcopy(batch)[0], format=fmt)
                except Exception as e:
                    R.violation(f'{fmt}:raises', f'to_string(<n-best list of one sentence>, format={fmt!r}) raised {e!r}', wit)
                    continue
                R.count('rendered-flat-form')
                if flat != text:
                    check_rendering(R, batch, fmt, lang, flat, dict(wit, call_form='flat n-best list of one sentence'))
            if ok and i == 0 and fmt in ('auto', 'prolog', 'deriv'):
                R.sample({'lang': lang, 'format': fmt, 'output': text[:400]})
        if R.out_of_time():
            R.extra['cut_short'] = 1
            break

"""C16 — the supertag beam is honoured."""
import numpy as np

from vlib import search
from vlib.checks import _searchcommon as SC

ID = PROP = 'C16'
LEVEL = 'exploration'
RULE = ('a case is a sentence whose tag rows are built around the beam boundary: a needed tag at rank pruning_size or pruning_size+1, '
        'at relative distance +-{1e-3,1e-2,0.3} from beta x best probability, rows flattened to -1e33 as the category dictionary does, '
        'beta in {1e-10,1e-8,1e-5,1e-3,0.1,0.5,0.9}, pruning 1..60, filter on/off; grammars where few tags per word lead to a parse so that admitting '
        'or excluding one flips parse/fail. Monitors: no leaf tag outside the may-admitted set (independent statement of the beam), no '
        'parse when the reference finds none over the may set, no failure when it finds one over the must set. distinct = fingerprint '
        'of (grammar, matrices, config); non-trivial = the beam excludes at least one tag of some word.')
ASSUMPTIONS = SC.ASSUMPTIONS + ['ties and float rounding exactly at the beam boundary are neutral (must/may sets)']
REQUIRED_MONITORS = {'monitor:tree-validated': 300, 'monitor:failure-legitimacy': 100, 'beam:cases-with-exclusion': 300,
                     'cli:argument-vectors': 100, 'pool:calls': 2}
prepare = SC.prepare


def shards(tier, seed):
    out = SC.shards(tier, seed, q_cases=600, real=False)
    q = tier == 'quick'
    # the beam must also hold on the multiprocessing path (settings travel to the workers)
    out += [{'name': f'pool{k}', 'variant': 'plain', 'build': 'plain', 'kind': 'pool', 'cases': 3 if q else 40,
             'budget_s': 50 if q else 600, 'timeout': 1500} for k in range(2)]
    # the beam settings given on the command line must reach the parser unchanged
    out += [{'name': 'cli', 'kind': 'cli', 'cases': 400 if q else 20000, 'budget_s': 40 if q else 300}]
    return out


def run_cli(spec, R):
    import sys
    from vlib import env
    from vlib.runner import shard_rng
    env.install()
    env.stub_native_parsing()
    import depccg.argparse as A
    rng = shard_rng(ID, spec['seed'], spec['name'])
    for i in range(spec['cases']):
        lang = rng.choice(('en', 'ja'))
        r = rng.random()
        if r < 0.3:
            beta = rng.choice((1e-5, 1e-3, 0.1, 0.5, 0.9))
        elif r < 0.7:
            beta = float('%.*g' % (rng.randint(1, 9), rng.uniform(1e-7, 0.999)))
        else:
            beta = 10 ** rng.uniform(-9, -0.01)
        prune = rng.choice((1, 2, 3, 7, 50, 60, rng.randint(1, 500)))
        nbest = rng.choice((1, 1, 2, 5, 10))
        disable = rng.random() < 0.3
        btxt = repr(beta)
        argv = ['depccg', lang, '--beta', btxt, '--pruning-size', str(prune), '--nbest', str(nbest)] + (['--disable-beta'] if disable else [])
        early = rng.random() < 0.15
        if early:
            # a beam option written before the language: either it is refused, or it takes effect - it is never accepted and dropped
            opts = [['--beta', btxt], ['--pruning-size', str(prune)]] + ([['--disable-beta']] if disable else [])
            first = rng.choice(opts)
            rest = [o for o in opts if o is not first]
            argv = ['depccg'] + first + [lang] + [a for o in rest for a in o] + ['--nbest', str(nbest)]
        got = {}
        old = sys.argv
        sys.argv = argv
        try:
            A.parse_args(lambda args: got.update(vars(args)))
        except SystemExit as e:
            got['exit'] = e.code
        except Exception as e:
            got['error'] = repr(e)
        finally:
            sys.argv = old
        R.case(('cli', tuple(argv)), True)
        R.count('cli:argument-vectors')
        if early and (got.get('exit') not in (None, 0) or 'error' in got):
            R.count('cli:early-option-refused')
            continue
        wit = {'argv': argv, 'got': {k: got.get(k) for k in ('beta', 'pruning_size', 'nbest', 'disable_beta', 'exit', 'error')}}
        if got.get('beta') != float(btxt) or got.get('pruning_size') != prune or got.get('disable_beta') is not disable \
                or got.get('nbest') != nbest:
            R.violation('beam:cli-setting-altered', f'command line {argv[2:]} arrives as beta={got.get("beta")!r} pruning_size='
                        f'{got.get("pruning_size")!r} nbest={got.get("nbest")!r} disable_beta={got.get("disable_beta")!r} '
                        f'({got.get("exit", got.get("error", ""))})', wit)
        if i < 2:
            R.sample(wit)
        if R.out_of_time():
            break


def run_pool(spec, R):
    from vlib import oracle_cky
    from vlib.runner import shard_rng, stable_hash
    E = search.Engine(R, spec['variant'], PROP)
    from depccg.types import Token, ScoringResult
    rng = shard_rng(ID, spec['seed'], spec['name'])
    for ci in range(spec['cases']):
        n = rng.randint(21, 40)
        case = search.gen_case(rng, n_sent=n, beam=True, max_n=5, sparse=True, family='softmax')
        cfg = case['config']
        T = len(case['cats'])
        cfg['pruning_size'] = rng.randint(1, max(1, T - 1))
        case['exact'] = False
        doc = [[Token(word=w) for w in words] for words, _, _ in case['sentences']]
        scores = [ScoringResult(t.copy(), d.copy()) for _, t, d in case['sentences']]
        wit = {'case': search.case_to_json(case), 'path': 'pool'}
        try:
            res = E.P.run(doc, scores, list(case['cats']), list(case['roots']), case['binary'], case['unary'],
                          processes=rng.choice((2, 3)), max_chunk_size=rng.choice((1, 5, 20)), **cfg)
        except Exception as e:
            R.violation('run:raises', f'pool path raised {e!r}', wit)
            continue
        R.count('pool:calls')
        for si, (words, tag, dep) in enumerate(case['sentences']):
            must, may = zip(*[oracle_cky.admitted_tags(tag[i], cfg['pruning_size'], cfg['use_beta'], cfg['beta']) for i in range(len(words))])
            excl = any(len(m) < T for m in may)
            R.case(stable_hash((wit['case']['sentences'][si], cfg)), excl)
            if excl:
                R.count('beam:cases-with-exclusion')
            if search.is_placeholder(res[si]):
                try:
                    best, _ = oracle_cky.Oracle(tag, dep, case['cats'], case['binary'], case['unary'], case['roots'], cfg['unary_penalty'], list(must)).best()
                except oracle_cky.Budget:
                    continue
                R.count('monitor:failure-legitimacy')
                if best is not None:
                    E.violation('astar:failed-but-derivable', f'pool path: sentence {si} failed although a derivation exists over the admitted tags', dict(wit, sentence=si))
            else:
                R.count('monitor:tree-validated')
                # leaf tokens are pickled copies on this path: compare tags only
                idx = {c: i for i, c in enumerate(case['cats'])}
                for li, leaf in enumerate(res[si][0].tree.leaves):
                    t = idx.get(leaf.cat)
                    if t is None or t not in may[li]:
                        E.violation('beam:tag-beyond-pruning', f'pool path: sentence {si} leaf {li} uses tag {leaf.cat} which the beam '
                                    f'(pruning_size={cfg["pruning_size"]}, use_beta={cfg["use_beta"]}, beta={cfg["beta"]}) does not admit', dict(wit, sentence=si))
                        break
        if R.out_of_time():
            break


def gen(rng, spec):
    nb = rng.choice((1, 1, 1, 2, 3, 5))
    case = search.gen_case(rng, beam=True, max_n=5, sparse=nb > 1 or rng.random() < 0.5, nbest=nb,
                           family='softmax' if rng.random() < 0.7 else 'uniform')
    cfg = case['config']
    words, tag, dep = case['sentences'][0]
    n, T = tag.shape
    cfg['pruning_size'] = rng.choice((1, 1, 2, 2, 3, T, T + 1, 60))
    cfg['use_beta'] = rng.random() < 0.7
    cfg['beta'] = rng.choice((1e-5, 1e-3, 0.1, 0.5, 0.9, 1e-8, 1e-10))    # the filter is a filter for every beta in (0, 1)
    tag = tag.astype(np.float64)
    for i in range(n):
        r = rng.random()
        order = np.argsort(-tag[i])
        best = tag[i, order[0]]
        if r < 0.35 and T >= 2:
            # place a tag at a chosen relative distance from beta * best probability
            j = order[rng.randrange(1, T)]
            rel = rng.choice((-0.3, -1e-2, -1e-3, 1e-3, 1e-2, 0.3))
            tag[i, j] = best + np.log(cfg['beta'] * (1 + rel))
        elif r < 0.5:
            # flatten all but a few entries, as apply_category_filters does
            keep = set(rng.sample(range(T), rng.randint(1, T)))
            for j in range(T):
                if j not in keep:
                    tag[i, j] = -10e+32
        elif r < 0.6 and T >= 2:
            tag[i, order[1]] = tag[i, order[0]]          # tie at the top
        elif r < 0.68 and T >= 2:
            # tags of probability 0: with the filter off only their rank counts, with the filter on they are below any beta x best
            for j in (list(order[1:]) if rng.random() < 0.5 else rng.sample(list(order[1:]), rng.randint(1, T - 1))):
                tag[i, j] = -np.inf
    case['sentences'][0] = (words, tag.astype(np.float32), dep)
    case['exact'] = False
    if rng.random() < 0.15 and cfg['beta'] >= 1e-5:      # deep rows are built for beta >= 1e-5 (see extreme_rows)
        search.extreme_rows(rng, case, mode='deep')
    return case


def nontrivial(s, c):
    return bool(s.get('beam_excludes'))


def per_case(E, case, sums):
    if sums and sums[0].get('beam_excludes'):
        E.R.count('beam:cases-with-exclusion')
        if sums[0].get('parsed'):
            E.R.count('beam:parsed-with-exclusion')
        else:
            E.R.count('beam:failed-with-exclusion')


def run(spec, R):
    if spec['kind'] == 'pool':
        return run_pool(spec, R)
    if spec['kind'] == 'cli':
        return run_cli(spec, R)
    SC.run(ID, PROP, spec, R, gen, nontrivial, per_case)


def replay(w, R):
    SC.replay(PROP, w, R)

"""C16 — the supertag beam is honoured."""
import numpy as np

from vlib import search
from vlib.checks import _searchcommon as SC

ID = PROP = 'C16'
LEVEL = 'exploration'
RULE = ('a case is a sentence whose tag rows are built around the beam boundary: a needed tag at rank pruning_size or pruning_size+1, '
        'at relative distance +-{1e-3,1e-2,0.3} from beta x best probability, rows flattened to -1e33 as the category dictionary does, '
        'beta in {1e-5,1e-3,0.1,0.5,0.9}, pruning 1..60, filter on/off; grammars where few tags per word lead to a parse so that admitting '
        'or excluding one flips parse/fail. Monitors: no leaf tag outside the may-admitted set (independent statement of the beam), no '
        'parse when the reference finds none over the may set, no failure when it finds one over the must set. distinct = fingerprint '
        'of (grammar, matrices, config); non-trivial = the beam excludes at least one tag of some word.')
ASSUMPTIONS = SC.ASSUMPTIONS + ['ties and float rounding exactly at the beam boundary are neutral (must/may sets)']
REQUIRED_MONITORS = {'monitor:tree-validated': 300, 'monitor:failure-legitimacy': 100, 'beam:cases-with-exclusion': 300}
prepare = SC.prepare


def shards(tier, seed):
    return SC.shards(tier, seed, q_cases=600, real=False)


def gen(rng, spec):
    case = search.gen_case(rng, beam=True, max_n=5, sparse=rng.random() < 0.5, family='softmax' if rng.random() < 0.7 else 'uniform')
    cfg = case['config']
    words, tag, dep = case['sentences'][0]
    n, T = tag.shape
    cfg['pruning_size'] = rng.choice((1, 1, 2, 2, 3, T, T + 1, 60))
    cfg['use_beta'] = rng.random() < 0.7
    cfg['beta'] = rng.choice((1e-5, 1e-3, 0.1, 0.5, 0.9))
    tag = tag.astype(np.float64)
    for i in range(n):
        r = rng.random()
        order = np.argsort(-tag[i])
        best = tag[i, order[0]]
        if r < 0.35 and T >= 2:
            # place a tag at a chosen relative distance from beta * best probability
            j = order[rng.randrange(1, T)]
            rel = rng.choice((-0.3, -1e-2, -1e-3, 1e-3, 1e-2, 0.3))
            tag[i, j] = best + np.log(cfg['beta'] * (1 + rel))
        elif r < 0.5:
            # flatten all but a few entries, as apply_category_filters does
            keep = set(rng.sample(range(T), rng.randint(1, T)))
            for j in range(T):
                if j not in keep:
                    tag[i, j] = -10e+32
        elif r < 0.6 and T >= 2:
            tag[i, order[1]] = tag[i, order[0]]          # tie at the top
    case['sentences'][0] = (words, tag.astype(np.float32), dep)
    case['exact'] = False
    return case


def nontrivial(s, c):
    return bool(s.get('beam_excludes'))


def per_case(E, case, sums):
    if sums and sums[0].get('beam_excludes'):
        E.R.count('beam:cases-with-exclusion')
        if sums[0].get('parsed'):
            E.R.count('beam:parsed-with-exclusion')
        else:
            E.R.count('beam:failed-with-exclusion')


def run(spec, R):
    SC.run(ID, PROP, spec, R, gen, nontrivial, per_case)


def replay(w, R):
    SC.replay(PROP, w, R)

"""C20 — PTB and Japanese-bank text written by depccg reads back to the same tree
(real to_string('ptb') -> real read_ptb; real ja_of -> real read_ccgbank, plain and with bank-style annotations)."""
import copy
import os
import tempfile

from vlib import env, treegen, fmtcheck, refcat
from vlib.runner import shard_rng, stable_hash

ID = 'C20'
LEVEL = 'exploration'
RULE = ('ptb: trees over the English lexicon (licensed + arbitrary, unary and binary nodes, bracket tokens) written by the real '
        'to_string(format=ptb) and read by the real read_ptb: categories, shape, words (either spelling of brackets); every proper '
        'prefix of a line (at field boundaries and at random characters) and every line with one closing bracket deleted must raise. '
        'ja: trees over the Japanese lexicon printed by the real ja_of (no header), read by the real read_ccgbank, plain and with '
        'bank-style annotations injected ({I1} marks after atoms and bracketed groups, _none / _I1(I2,_,_,_) suffix on leaf '
        'categories): categories, shape, words, rule symbols. distinct = fingerprint of the tree (+variant); non-trivial = >= 2 leaves.')
ASSUMPTIONS = ['token domains: no blank, no backslash; ptb: round brackets only as whole tokens; ja: none of / { } and no -LRB- style spelling',
               'ja trees carry the rule symbols of the Japanese grammar (the reader recognises exactly those)']
REQUIRED_MONITORS = {'read_ptb:trees': 200, 'read_ptb:incomplete-lines': 500, 'read_ccgbank:trees-plain': 200,
                     'read_ccgbank:trees-annotated': 200, 'ptb:bracket-tokens': 20,
                     'read_ptb:long-chains': 2, 'read_ptb:repeated-lines': 30, 'read_ccgbank:long-chains': 2}


def shards(tier, seed):
    q = tier == 'quick'
    return [{'name': f'{kind}{k}', 'kind': kind, 'cases': 150 if q else 15000, 'budget_s': 40 if q else 600}
            for kind in ('ptb', 'ja') for k in range(6)]


def safe(x):
    try:
        return str(x)
    except Exception as e:
        return f'<unprintable {type(x).__name__}: {e!r}>'


def same(src, got, words, check_symbols, path='root'):
    out = []
    if src.is_leaf != got.is_leaf or len(src.children) != len(got.children):
        return [('shape', f'{path}: shape differs ({"leaf" if got.is_leaf else len(got.children)} vs {"leaf" if src.is_leaf else len(src.children)})')]
    if not (src.cat == got.cat):
        out.append(('category', f'{path}: category {safe(got.cat)}, expected {src.cat!s}'))
    if src.is_leaf:
        if got.token.get('word') not in words(src.token['word']):
            out.append(('words', f'{path}: word {got.token.get("word")!r}, expected one of {words(src.token["word"])}'))
        return out
    if check_symbols and (got.op_symbol != src.op_symbol):
        out.append(('label', f'{path}: rule symbol {got.op_symbol!r}, expected {src.op_symbol!r}'))
    for i, (a, b) in enumerate(zip(src.children, got.children)):
        out += same(a, b, words, check_symbols, f'{path}/{i}')
    return out


def annotate_cat(text, rng, leaf):
    v = refcat.ref_parse(text)
    k = [0]

    def mark():
        k[0] += 1
        return '{I%d}' % rng.choice((1, 2, 3, 3, 10, 12))

    def rec(x):
        if x[0] == 'A':
            return refcat.ref_print(x) + mark()
        return f'({rec(x[1])}{x[2]}{rec(x[3])})' + mark()
    s = rec(v)
    if leaf:
        s += rng.choice(('_none', '_I1(I2,_,_,_)', '_I1(I2,I3,_,_)', '_I1', '_I10(unk,I2,I11,_)'))
    return s


def annotate_line(line, rng):
    items = line.split(' ')
    out = []
    i = 0
    while i < len(items):
        it = items[i]
        if it.startswith('{') and i + 1 < len(items):
            if items[i + 1].endswith('}'):            # leaf: {cat fields}
                out += ['{' + annotate_cat(it[1:], rng, True), items[i + 1]]
            else:                                      # node: {sym cat
                out += [it, annotate_cat(items[i + 1], rng, False)]
            i += 2
        else:
            out.append(it)
            i += 1
    return ' '.join(out)


def run(spec, R):
    rng = shard_rng(ID, spec['seed'], spec['name'])
    tmp = tempfile.mkdtemp(prefix='verif-c20-')
    try:
        if spec['kind'] == 'ptb':
            run_ptb(spec, R, rng, os.path.join(tmp, 'x.ptb'))
        else:
            run_ja(spec, R, rng, os.path.join(tmp, 'x.ja'))
    finally:
        import shutil
        shutil.rmtree(tmp, ignore_errors=True)


LONG = 250      # the parser's default max_length: the longest sentence whose derivation depccg prints without being asked to


def long_chains(R, lang, rng, path, write, read, key, check_symbols):
    """a max_length-word sentence whose derivation is one chain, written and read back under the default recursion limit"""
    from depccg.tree import ScoredTree
    token_fn = (lambda r: treegen.en_token(r, 'ptb', None)) if lang == 'en' else (lambda r: treegen.ja_token(r, 'ja'))
    for shape in ('right', 'left'):
        n = rng.choice((LONG, LONG - 1, 200))
        t = treegen.chain_tree(rng, lang, token_fn, n, shape)
        R.case(('long-chain', lang, shape, n), True)
        wit = {'words': n, 'shape': shape}
        text = write([[ScoredTree(t, -1.0)]])
        with open(path, 'w', encoding='utf-8') as f:
            f.write(text)
        try:
            with treegen.default_recursion_limit():
                got = list(read(path))
        except Exception as e:
            R.violation(f'{key}:raises', f'{key} raised {e!r} on the {n}-word {shape}-branching derivation depccg wrote '
                        f'(default recursion limit)', wit)
            continue
        R.count(f'{key}:long-chains')
        words = lambda w: (w, fmtcheck.escaped_word(w), fmtcheck.raw_word(w))     # noqa: E731
        if len(got) != 1:
            R.violation(f'{key}:shape', f'{len(got)} trees read from 1 written', wit)
            continue
        for kind, msg in same(t, got[0].tree, words, check_symbols)[:2]:
            R.violation(f'{key}:{kind}', f'{n}-word chain: {msg}', wit)


def run_ptb(spec, R, rng, path):
    env.install('en')
    env.stub_native_parsing()
    from depccg.printer import to_string
    from depccg.tools.reader import read_ptb
    long_chains(R, 'en', rng, path, lambda b: to_string(b, format='ptb'), read_ptb, 'read_ptb', False)
    for i in range(spec['cases']):
        batch = treegen.make_batch(rng, 'en', 'ptb', max_sentences=2, max_nbest=2, licensed_share=0.5)
        flat = [st for trees in batch for st in trees]
        wit = {'batch': repr([treegen.tree_dump(st.tree) for st in flat])[:3000]}
        for st in flat:
            R.case(stable_hash(('ptb', treegen.tree_dump(st.tree))), len(st.tree.leaves) >= 2)
            if any(t['word'] in ('(', ')', '[', ']', '{', '}') for t in st.tree.tokens):
                R.count('ptb:bracket-tokens')
        try:
            text = to_string(copy.deepcopy(batch), format='ptb')
        except Exception as e:
            R.violation('ptb:raises', f'to_string raised {e!r}', wit)
            continue
        with open(path, 'w', encoding='utf-8') as f:
            f.write(text)
        lines = [l for l in text.split('\n') if l and not l.startswith('ID=')]
        try:
            read = list(read_ptb(path))
        except Exception as e:
            R.violation('read_ptb:raises', f'read_ptb raised {e!r} on text written by depccg', dict(wit, text=text[:1500]))
            continue
        if len(read) != len(flat):
            R.violation('read_ptb:shape', f'{len(read)} trees read from {len(flat)} written', dict(wit, text=text[:1500]))
            continue
        for st, rr, line in zip(flat, read, lines):
            R.count('read_ptb:trees')
            words = lambda w: (w, fmtcheck.escaped_word(w), fmtcheck.raw_word(w))     # noqa: E731
            for kind, msg in same(st.tree, rr.tree, words, False)[:2]:
                R.violation(f'read_ptb:{kind}', msg, dict(wit, line=line))
            if [t.get('word') for t in rr.tokens] != [t.token.get('word') for t in rr.tree.leaves]:
                R.violation('read_ptb:words', 'token list returned by the reader differs from the leaves of its tree', dict(wit, line=line))
        # a file of bare tree lines (ptb_of, no ID lines) in which the same tree stands on consecutive lines: every line is a tree
        if i % 3 == 0:
            k = rng.randrange(len(lines))
            seq = list(zip(flat, lines))
            seq = seq[:k + 1] + [seq[k]] * rng.choice((1, 1, 2)) + seq[k + 1:]
            with open(path, 'w', encoding='utf-8') as f:
                f.write(''.join(l + '\n' for _, l in seq))
            try:
                read2 = list(read_ptb(path))
            except Exception as e:
                read2 = None
                R.violation('read_ptb:raises', f'read_ptb raised {e!r} on a file with a repeated tree line', dict(wit, text=text[:1500]))
            if read2 is not None:
                R.count('read_ptb:repeated-lines')
                if len(read2) != len(seq):
                    R.violation('read_ptb:shape', f'{len(read2)} trees read from {len(seq)} lines (a tree repeated on consecutive lines)',
                                dict(wit, lines=[l for _, l in seq][:6]))
                else:
                    for (st, line2), rr in zip(seq, read2):
                        for kind, msg in same(st.tree, rr.tree, words, False)[:1]:
                            R.violation(f'read_ptb:{kind}', msg, dict(wit, line=line2))
        # incomplete lines must be rejected
        line = rng.choice(lines)
        fields = line.split(' ')
        variants = [' '.join(fields[:k]) for k in range(1, len(fields))]
        variants += [line[:rng.randrange(1, len(line))] for _ in range(4)]
        # a line missing a *structural* closing bracket is incomplete (a ')' inside a word is part of the word)
        br, off = [], 0
        for item in fields:
            run = len(item) - len(item.rstrip(')'))
            br += list(range(off + len(item) - run, off + len(item)))
            off += len(item) + 1
        variants += [line[:k] + line[k + 1:] for k in rng.sample(br, min(4, len(br)))]
        for v in variants:
            if v == line or not v.strip():
                continue
            R.count('read_ptb:incomplete-lines')
            R.case(stable_hash(('ptb-incomplete', v)), True)
            after_complete = rng.random() < 0.3      # the incomplete line may follow complete ones in the same file
            with open(path, 'w', encoding='utf-8') as f:
                f.write((line + '\n' if after_complete else '') + v + '\n')
            try:
                got = list(read_ptb(path))
            except Exception:
                R.count('read_ptb:incomplete-rejected')
                continue
            if after_complete:
                got = got[1:]
                if not got:
                    R.violation('read_ptb:partial-accepted', f'incomplete line {v!r} after a complete line was passed over without an error',
                                {'line': line, 'variant': v, 'after_complete_line': True})
                    continue
            if got:
                R.violation('read_ptb:partial-accepted', f'incomplete line {v!r} (from {line!r}) was read as a tree with '
                            f'{len(got[0].tree.leaves)} leaves', {'line': line, 'variant': v})
        if i < 2:
            R.sample({'ptb_line': lines[0][:300]})
        if R.out_of_time():
            break


def run_ja(spec, R, rng, path):
    env.install('ja')
    env.stub_native_parsing()
    from depccg.printer.ja import ja_of
    from depccg.tools.ja.reader import read_ccgbank
    long_chains(R, 'ja', rng, path, lambda b: ja_of(b[0][0].tree) + '\n', read_ccgbank, 'read_ccgbank', True)
    for i in range(spec['cases']):
        batch = treegen.make_batch(rng, 'ja', 'ja', max_sentences=3, max_nbest=2, licensed_share=0.6)
        flat = [st for trees in batch for st in trees]
        wit = {'batch': repr([treegen.tree_dump(st.tree) for st in flat])[:3000]}
        try:
            lines = [ja_of(copy.deepcopy(st.tree)) for st in flat]
        except Exception as e:
            R.violation('ja:raises', f'ja_of raised {e!r}', wit)
            continue
        for variant in ('plain', 'annotated'):
            out_lines = lines if variant == 'plain' else [annotate_line(l, rng) for l in lines]
            with open(path, 'w', encoding='utf-8') as f:
                f.write('\n'.join(out_lines) + '\n')
            for st in flat:
                R.case(stable_hash((variant, treegen.tree_dump(st.tree))), len(st.tree.leaves) >= 2)
            try:
                read = list(read_ccgbank(path))
            except Exception as e:
                R.violation('read_ccgbank:raises', f'read_ccgbank raised {e!r} on {variant} text written by depccg',
                            dict(wit, text='\n'.join(out_lines)[:1500]))
                continue
            if len(read) != len(flat):
                R.violation('read_ccgbank:shape', f'{len(read)} trees read from {len(flat)} written', dict(wit, text='\n'.join(out_lines)[:1500]))
                continue
            for st, rr, line in zip(flat, read, out_lines):
                R.count(f'read_ccgbank:trees-{variant}')
                words = lambda w: (fmtcheck.raw_word(w),)      # noqa: E731
                for kind, msg in same(st.tree, rr.tree, words, True)[:2]:
                    R.violation(f'read_ccgbank:{kind}', f'{variant}: {msg}', dict(wit, line=line))
                if [t.get('surf') for t in rr.tokens] != [fmtcheck.raw_word(t['word']) for t in st.tree.tokens]:
                    R.violation('read_ccgbank:words', f'{variant}: token list returned by the reader differs from the words', dict(wit, line=line))
        if i < 2:
            R.sample({'ja_line': lines[0][:300], 'annotated': annotate_line(lines[0], rng)[:300]})
        if R.out_of_time():
            break

"""Shared engine for the properties decided through the search (C01 C02 C09 C10 C12a C16, and C11's in-process part):
runs the real depccg.parsing.run -> pyxlite(parsing.pyx) -> shim(parsing.h) and applies all monitors to what
came back and to the pop-hook trace. Each check reports only the mechanism keys its property owns."""
import math

import numpy as np

from vlib import env, pyxlite, synth, oracle_cky
from vlib.runner import Inconclusive, stable_hash

OWN = {
    # glue:* = the finalizer read a rule result that is not there (label taken from somewhere else)
    'C01': ('astar:suboptimal-first-parse', 'astar:priority-increase', 'astar:failed-but-derivable', 'astar:better-than-any-derivation'),
    'C02': ('tree:leaf-mismatch', 'tree:unlicensed-node', 'tree:bad-root', 'tree:unary-at-root', 'tree:not-a-result',
            'glue:ub-index', 'glue:swallowed-exception', 'tree:tag-not-admitted'),
    'C09': ('score:recomputation-mismatch', 'score:placeholder-not-minus-inf'),
    'C10': ('nbest:count', 'nbest:order', 'nbest:scores', 'nbest:duplicate', 'nbest:first-differs-from-1best'),
    'C12': ('tree:label-not-from-creating-rule', 'tree:head-flag-not-from-rule', 'glue:ub-index', 'glue:swallowed-exception'),
    'C16': ('beam:tag-below-beta', 'beam:tag-beyond-pruning', 'beam:parse-needs-excluded-tag', 'astar:failed-but-derivable',
            'beam:cli-setting-altered'),
}
ALWAYS = ('sanitizer', 'crash', 'run')


def owned(prop, key):
    return key in OWN.get(prop, ()) or key.split(':')[0] in ALWAYS


class Engine:
    def __init__(self, R, variant='plain', prop=None):
        self.R, self.prop = R, prop
        env.install()
        self.mod, self.rt = pyxlite.load(variant, trace=True)
        if variant == 'asan':
            maps = open('/proc/self/maps').read()
            if 'libclang_rt.asan' not in maps or 'shim_asan' not in maps:
                raise Inconclusive('sanitizer shard is not running under the ASan runtime')
            R.count('sanitizer:asan-runtime-active')
        import depccg.parsing as P
        self.P = P
        self.history = []
        rt = self.rt
        orig = rt.parse_sentence

        def recording(*a):
            try:
                status = orig(*a)
            finally:
                self.history.append((rt.last_counts, rt.last_trace))
            return status
        self.mod.__dict__['parse_sentence'] = recording
        # smoke: a 3-sentence batch returns 3 lists
        self._smoke()

    def _smoke(self):
        import random
        rng = random.Random(0)
        case = gen_case(rng, n_sent=3, nbest=1)
        out = self.run(case)
        # an exception or a wrong number of result lists here comes from the code under test (translation and import problems
        # were already reported by pyxlite.load): not a reason to stop, the workload itself will report it
        if out.get('error') or len(out['results'] or ()) != 3:
            self.R.count('smoke:batch-misbehaved')

    def violation(self, key, what, witness):
        if self.prop is None or owned(self.prop, key):
            self.R.violation(key, what, witness)
        else:
            self.R.hist('foreign_violation_keys', key)

    def run(self, case, **overrides):
        from depccg.types import Token, ScoringResult
        cfg = dict(case['config'])
        cfg.update(overrides)
        doc = case.get('_doc')
        if doc is None:
            doc = [[Token(word=w) for w in words] for words, _, _ in case['sentences']]
            case['_doc'] = doc
        scores = [ScoringResult(tag.copy(), dep.copy()) for _, tag, dep in case['sentences']]
        self.history.clear()
        self.rt.swallowed.clear()
        self.rt.ub_events.clear()
        g = case['grammar']
        # the caller's own lists are handed over (not copies): they must come back unchanged
        cats_before, roots_before = list(case['cats']), list(case['roots'])
        try:
            results = self.P.run(doc, scores, case['cats'], case['roots'], case['binary'], case['unary'],
                                 processes=1, max_chunk_size=10**6, **cfg)
            err = None
        except Exception as e:
            results, err = None, e
        if case['cats'] != cats_before or case['roots'] != roots_before:
            self.R.violation('batch:history-dependent' if self.prop in (None, 'C11') else 'run:caller-list-mutated',
                             f'parsing.run changed the category/root list it was given ({len(cats_before)} -> {len(case["cats"])} '
                             f'categories): the next call with the same list sees a different input', {'case': case_to_json(case)})
            case['cats'][:] = cats_before
            case['roots'][:] = roots_before
        return {'results': results, 'error': err, 'history': list(self.history), 'doc': doc,
                'swallowed': list(self.rt.swallowed), 'ub': list(self.rt.ub_events)}


# ---------------------------------------------------------------------- case generation (synthetic grammars)
def extreme_rows(rng, case, mode=None):
    """rows as the category dictionary leaves them (entries flattened to -1e33) or deep in the negative range, where
    float exp() underflows: the best tag between -100 and -93, the others at -1e33 / -130 / -150 (exp == 0 exactly in
    binary32 and below beta x best for every beta >= 1e-5, so that float rounding cannot blur what the beam admits)"""
    out = []
    for words, tag, dep in case['sentences']:
        tag = tag.astype(np.float64)
        n, T = tag.shape
        for i in range(n):
            r = rng.random()
            m = mode or ('flat' if r < 0.5 else 'deep')
            if rng.random() < 0.5:
                continue
            if m == 'flat':
                keep = set(rng.sample(range(T), rng.randint(1, T)))
                for j in range(T):
                    if j not in keep:
                        tag[i, j] = -10e+32
            else:
                best = rng.randrange(T)
                for j in range(T):
                    tag[i, j] = -rng.uniform(93, 100) if j == best else rng.choice((-10e+32, -150.0, -130.0))
        out.append((words, tag.astype(np.float32), dep))
    case['sentences'] = out
    case['exact'] = False
    return case


def neginf_arcs(rng, case):
    """impossible attachments: log(0) = -inf is a log-probability; a derivation that needs such an arc still exists
    (its score is -inf) and every derivation that avoids them is ranked as usual. Every row keeps a finite entry: a row of
    -inf only is not a distribution (and is outside what parsing.h handles: its argmax returns -1, see DESIGN 8.3)"""
    out = []
    p = rng.choice((0.1, 0.3, 0.6, 1.0))
    for words, tag, dep in case['sentences']:
        dep = dep.copy()
        mask = np.array([[rng.random() < p for _ in range(dep.shape[1])] for _ in range(dep.shape[0])])
        for i in range(dep.shape[0]):
            if mask[i].all():
                mask[i, rng.randrange(dep.shape[1])] = False     # a row of log-probabilities has at least one finite entry
        dep[mask] = -np.inf
        out.append((words, tag, dep))
    case['sentences'] = out
    return case


def gen_case(rng, n_sent=1, nbest=None, family=None, max_n=6, sparse=False, head_left=None, beam=False, mixed_heads=False,
             many_cats=False):
    ntags = rng.randint(2, 6)
    ncat = ntags + rng.randint(0, 4)
    dens = rng.choice((0.1, 0.2, 0.3)) if sparse else None
    if many_cats:
        # a large category table (ids far beyond the tag list), as in the real pipeline where rules and roots add hundreds
        ncat = rng.randint(70, 140)
        dens = rng.choice((0.05, 0.1, 0.2))
    g, hl = synth.random_grammar(rng, ncat, ntags, head_left=head_left, density=dens,
                                 max_results=2 if sparse else rng.choice((3, 3, 4)), mixed_heads=mixed_heads,
                                 fat=many_cats and rng.random() < 0.5)
    cats = [synth.SCat(i) for i in range(ntags)]
    nroots = rng.choice((1, 2, ncat // 2 + 1, ncat)) if rng.random() > 0.03 else 0      # rarely: no allowed root at all
    roots = [synth.SCat(i) for i in rng.sample(range(ncat), nroots)]
    family = family or rng.choice(('uniform', 'deceptive', 'ties', 'softmax', 'uniform64'))
    sentences = []
    for _ in range(n_sent):
        n = rng.randint(1, max_n)
        if family == 'softmax':
            tag, dep = synth.logsoftmax_scores(rng, n, ntags, temp=rng.choice((0.5, 1.0, 3.0)))
        elif family == 'uniform64':
            tag, dep = synth.dyadic_scores(rng, n, ntags, 'uniform', denom=64)
        else:
            tag, dep = synth.dyadic_scores(rng, n, ntags, family)
        sentences.append(([f'w{i}' for i in range(n)], tag, dep))
    cfg = {
        'unary_penalty': rng.choice((0.0, 0.125, 0.5, 1.0)),
        'nbest': nbest if nbest is not None else 1,
        'pruning_size': rng.choice((ntags, ntags + 3, 50)) if not beam else rng.randint(1, ntags),
        'use_beta': False,
        'beta': 0.00001,
        'max_step': 300000 if (nbest or 1) == 1 else 40000,   # n-best search is exhaustive up to the k-th goal
        'max_length': 250,
    }
    if beam and rng.random() < 0.6:
        cfg['use_beta'] = True
        cfg['beta'] = rng.choice((1e-5, 1e-3, 0.1, 0.5, 0.9))
    return {'grammar': g, 'binary': synth.BinaryFun(g), 'unary': synth.UnaryFun(g), 'head_left': hl, 'cats': cats,
            'roots': roots, 'sentences': sentences, 'config': cfg, 'family': family, 'exact': family != 'softmax'}


def case_to_json(case):
    if case.get('kind') == 'real':
        return {'kind': 'real', 'lang': case['lang'], 'seen_rules': case['seen_rules'], 'cats': [str(c) for c in case['cats']],
                'roots': [str(c) for c in case['roots']],
                'sentences': [[w, t.tolist(), d.tolist()] for w, t, d in case['sentences']], 'config': case['config'],
                'family': case.get('family'), 'exact': case.get('exact', False)}
    g = case['grammar']
    return {
        'binary': [[x, y, [list(r) for r in res]] for (x, y), res in g.binary.items()],
        'unary': [[x, [list(r) for r in res]] for x, res in g.unary.items()],
        'cats': [c.i for c in case['cats']], 'roots': [c.i for c in case['roots']],
        'sentences': [[w, t.tolist(), d.tolist()] for w, t, d in case['sentences']],
        'config': case['config'], 'family': case.get('family'), 'exact': case.get('exact', False),
        'head_left': case.get('head_left'), 'kind': 'synthetic',
    }


def case_from_json(j):
    if j.get('kind') == 'real':
        from vlib import realgrammar
        from depccg.cat import Category
        b, u, roots = realgrammar.params(j['lang'], j['seen_rules'])
        return {'kind': 'real', 'lang': j['lang'], 'seen_rules': j['seen_rules'], 'grammar': None, 'binary': b, 'unary': u,
                'cats': [Category.parse(c) for c in j['cats']], 'roots': [Category.parse(c) for c in j['roots']],
                'sentences': [(w, np.array(t, dtype=np.float32), np.array(d, dtype=np.float32)) for w, t, d in j['sentences']],
                'config': j['config'], 'family': j.get('family'), 'exact': j.get('exact', False)}
    g = synth.TableGrammar({(x, y): [tuple(r) for r in res] for x, y, res in j['binary']},
                           {x: [tuple(r) for r in res] for x, res in j['unary']})
    return {'grammar': g, 'binary': synth.BinaryFun(g), 'unary': synth.UnaryFun(g), 'head_left': j.get('head_left'),
            'cats': [synth.SCat(i) for i in j['cats']], 'roots': [synth.SCat(i) for i in j['roots']],
            'sentences': [(w, np.array(t, dtype=np.float32), np.array(d, dtype=np.float32)) for w, t, d in j['sentences']],
            'config': j['config'], 'family': j.get('family'), 'exact': j.get('exact', False)}


# ---------------------------------------------------------------------- monitors
def is_placeholder(result_list, tokens=None):
    if len(result_list) != 1:
        return False
    t = result_list[0].tree
    try:
        if tokens is not None and len(tokens) >= 1 and t.is_leaf and t.token is tokens[0]:
            return False            # a leaf over the sentence's own first token is a parse, not the placeholder
        # the explicit failure placeholder: one leaf over a token that carries nothing but a word (its spelling is not prescribed)
        return t.is_leaf and list(t.token) == ['word'] and t.cat.is_atomic
    except Exception:
        return False


def tol_for(case, magnitude):
    return 0.0 if case.get('exact') else 1e-4 * (1.0 + abs(magnitude))


def check_sentence(E, case, si, out, oracle_budget=40000, witness=None, nbest_ref=None, sample=False):
    """apply every monitor to sentence si of a finished run; returns a small summary dict"""
    R = E.R
    words, tag, dep = case['sentences'][si]
    n = len(words)
    cfg = case['config']
    res = out['results'][si]
    wit = witness or {'case': case_to_json(case), 'sentence': si}
    k = cfg.get('nbest', 1)
    penalty = cfg['unary_penalty']
    summary = {'parsed': False, 'derivations': None}
    if len(res) == 0:
        E.violation('tree:not-a-result', f'sentence {si}: an empty result list was returned (neither a parse nor the failure placeholder)', wit)
        E.violation('nbest:count', f'sentence {si}: an empty result list was returned', wit)
        return summary
    if n > cfg.get('max_length', 250):
        if not is_placeholder(res):
            E.violation('tree:not-a-result', 'over-long sentence did not yield the failure placeholder', wit)
        return summary
    hist_idx = sum(1 for j in range(si) if len(case['sentences'][j][0]) <= cfg.get('max_length', 250))
    counts, trace = out['history'][hist_idx] if hist_idx < len(out['history']) else ((0, 0), None)
    pops = counts[0]
    budget_hit = pops >= cfg['max_step']
    R.count('hook:pops', int(pops))
    R.count('hook:accepted', int(counts[1]))

    # ---- M1 priorities never increase (C01)
    if trace is not None and len(trace):
        pop = trace[trace['accepted'] == -1]
        if len(pop) > 1:
            pri = (pop['in_score'].astype(np.float32) + pop['out_score'].astype(np.float32)).astype(np.float64)
            inc = pri[1:] - pri[:-1]
            t = tol_for(case, float(np.max(np.abs(pri)))) if len(pri) else 0.0
            R.count('monitor:priority-monotone')
            bad = np.nonzero(inc > t)[0]
            if len(bad):
                j = int(bad[0])
                E.violation('astar:priority-increase',
                            f'agenda priority rose from {pri[j]!r} to {pri[j + 1]!r} at pop {j + 1} of {len(pri)} '
                            f'(span {int(pop["start"][j + 1])}+{int(pop["length"][j + 1])}, cat {int(pop["cat"][j + 1])})', wit)

    # ---- admitted tags
    must, may = [], []
    for i in range(n):
        a, b = oracle_cky.admitted_tags(tag[i], cfg['pruning_size'], cfg['use_beta'], cfg['beta'])
        must.append(a)
        may.append(b)
    beam_excludes = any(len(m) < tag.shape[1] for m in may)
    cats = case['cats']
    o_must = oracle_cky.Oracle(tag, dep, cats, case['binary'], case['unary'], case['roots'], penalty, must, oracle_budget)
    o_may = o_must if must == may else oracle_cky.Oracle(tag, dep, cats, case['binary'], case['unary'], case['roots'], penalty, may, oracle_budget)
    try:
        best_must, _ = o_must.best()
        best_may = best_must if o_may is o_must else o_may.best()[0]
    except oracle_cky.Budget:
        R.count('oracle:budget-exceeded')
        return summary
    R.count('oracle:best-computed')
    placeholder = is_placeholder(res, out['doc'][si])
    summary['parsed'] = not placeholder
    summary['beam_excludes'] = beam_excludes
    summary['has_derivation'] = best_must is not None

    if placeholder:
        R.count('monitor:failure-legitimacy')
        if res[0].score != -math.inf:
            E.violation('score:placeholder-not-minus-inf', f'failure placeholder carries score {res[0].score!r}', wit)
        if best_must is not None and not budget_hit and k >= 2:
            E.violation('nbest:count', f'asked for {k} parses, got the failure placeholder although derivations exist '
                        f'(best {best_must}) and only {pops} pops were made', wit)
        if best_must is not None and not budget_hit:
            E.violation('astar:failed-but-derivable',
                        f'sentence reported as failed after {pops} pops (< max_step {cfg["max_step"]}) although a rooted derivation '
                        f'with score {best_must} exists over the admitted tags', wit)
        return summary

    # ---- every returned tree (C02, C09, C12a, C16)
    seen_trees = []
    prev_score = None
    for ti, st in enumerate(res):
        tree, score = st.tree, st.score
        ok = validate_tree(E, case, si, tree, may, wit, out['doc'][si])
        R.count('monitor:tree-validated')
        if not ok:
            continue
        try:
            rs, nun = oracle_cky.score_of_tree(tree, tag, dep, cats, penalty)
        except KeyError:
            continue
        R.count('monitor:score-recomputed')
        if abs(rs - float(score)) > tol_for(case, rs):
            E.violation('score:recomputation-mismatch',
                        f'tree {ti} of sentence {si}: reported score {float(score)!r}, recomputed from the tree {rs!r} '
                        f'({nun} unary nodes, penalty {penalty})', wit)
        tt = oracle_cky.tree_to_tuple(tree)
        if tt in seen_trees:
            E.violation('nbest:duplicate', f'tree {ti} of sentence {si} equals an earlier tree of the list', wit)
        seen_trees.append(tt)
        if prev_score is not None and float(score) > prev_score + tol_for(case, prev_score):
            E.violation('nbest:order', f'scores not in non-increasing order: {prev_score!r} then {float(score)!r}', wit)
        prev_score = float(score)

    # ---- M2 optimality of the first parse (C01)
    first = float(res[0].score)
    R.count('monitor:optimality')
    if best_may is None:
        E.violation('beam:parse-needs-excluded-tag', 'a parse was returned although no derivation exists over the admitted tags', wit)
    else:
        if best_must is not None and first < best_must - tol_for(case, best_must):
            E.violation('astar:suboptimal-first-parse',
                        f'first parse scores {first!r} but a derivation with score {best_must!r} exists over the admitted tags '
                        f'({pops} pops)', wit)
        if first > best_may + tol_for(case, best_may):
            E.violation('astar:better-than-any-derivation',
                        f'first parse scores {first!r}, above the best derivation {best_may!r}', wit)

    # ---- n-best against the full enumeration (C10)
    if len(res) > k:
        E.violation('nbest:count', f'{len(res)} trees returned for nbest={k}', wit)
    if k >= 1 and must == may:
        try:
            ders = o_must.derivations()
        except oracle_cky.Budget:
            R.count('oracle:enumeration-budget-exceeded')
            ders = None
        if ders is not None:
            summary['derivations'] = len(ders)
            R.count('monitor:nbest-vs-enumeration')
            scores_all = sorted((s for s, _ in ders), reverse=True)
            want_n = min(k, len(ders))
            if len(res) != want_n and not budget_hit:
                E.violation('nbest:count', f'{len(res)} trees returned, expected min(k={k}, derivations={len(ders)})={want_n}', wit)
            got = [float(st.score) for st in res]
            wantl = scores_all[:len(got)]
            if not budget_hit and any(abs(a - b) > tol_for(case, b) for a, b in zip(got, wantl)):
                E.violation('nbest:scores', f'returned scores {got[:6]} are not the {len(got)} largest derivation scores {wantl[:6]}', wit)
            all_trees = {t for _, t in ders}
            for ti, tt in enumerate(seen_trees):
                if tt not in all_trees:
                    E.violation('tree:not-a-result', f'tree {ti} is not among the {len(ders)} derivations the reference enumerates', wit)
                    break
    if sample:
        R.sample({'words': n, 'tags': int(tag.shape[1]), 'config': cfg, 'family': case.get('family'), 'pops': int(pops),
                  'first_score': first, 'oracle_best': best_must, 'derivations': summary['derivations'],
                  'trees_returned': len(res)})
    return summary


def validate_tree(E, case, si, tree, may, wit, tokens):
    """C02 + C12a structural validation of one returned tree"""
    words, tag, dep = case['sentences'][si]
    n = len(words)
    cats = case['cats']
    idx = {}
    for i, c in enumerate(cats):
        idx.setdefault(c, i)
    try:
        leaves = tree.leaves
    except Exception as e:
        E.violation('tree:not-a-result', f'returned object is not a tree: {e!r}', wit)
        return False
    if len(leaves) != n:
        E.violation('tree:leaf-mismatch', f'{len(leaves)} leaves for {n} tokens', wit)
        return False
    ok = True
    for i, leaf in enumerate(leaves):
        if leaf.children[0] is not tokens[i]:
            E.violation('tree:leaf-mismatch', f'leaf {i} does not carry input token {i}', wit)
            ok = False
        t = idx.get(leaf.cat)
        if t is None:
            E.violation('tree:leaf-mismatch', f'leaf {i} carries {leaf.cat}, which is not in the category list', wit)
            ok = False
        elif t not in may[i]:
            below_rank = sorted((float(s) for s in tag[i]), reverse=True)
            kth = below_rank[min(case['config']['pruning_size'], len(below_rank)) - 1] if case['config']['pruning_size'] >= 1 else math.inf
            key = 'beam:tag-beyond-pruning' if float(tag[i, t]) < kth else 'beam:tag-below-beta'
            E.violation(key, f'leaf {i} uses tag {leaf.cat} (score {float(tag[i, t])!r}) which the beam does not admit '
                        f'(pruning_size={case["config"]["pruning_size"]}, use_beta={case["config"]["use_beta"]}, beta={case["config"]["beta"]}, '
                        f'best {below_rank[0]!r})', wit)
            E.violation('tree:tag-not-admitted', f'leaf {i} uses a supertag that was not admitted for it', wit)
            ok = False
    if tree.cat not in set(case['roots']):
        E.violation('tree:bad-root', f'root category {tree.cat} is not an allowed root', wit)
        ok = False
    if n > 1 and tree.is_unary and not tree.is_leaf:
        E.violation('tree:unary-at-root', 'a unary step sits at the root of a multi-word sentence', wit)
        ok = False

    def rec(node):
        nonlocal ok
        if node.is_leaf:
            return
        for ch in node.children:
            rec(ch)
        if node.is_unary:
            results = case['unary'](node.children[0].cat)
        else:
            results = case['binary'](node.children[0].cat, node.children[1].cat)
        same_cat = [r for r in results if r.cat == node.cat]
        if not same_cat:
            E.violation('tree:unlicensed-node', f'node {node.cat} is not a result of the grammar for its children '
                        f'{[str(c.cat) for c in node.children]}', wit)
            ok = False
            return
        E.R.count('monitor:label-checked')
        if len(results) >= 2:
            E.R.count('monitor:label-checked-among-several')
        lab = [r for r in same_cat if r.op_string == node.op_string and r.op_symbol == node.op_symbol]
        if not lab:
            E.violation('tree:label-not-from-creating-rule',
                        f'node {node.cat} <- {[str(c.cat) for c in node.children]} carries ({node.op_string}, {node.op_symbol}); '
                        f'the grammar results with that category carry {[(r.op_string, r.op_symbol) for r in same_cat]}', wit)
        elif not node.is_unary and not any(bool(r.head_is_left) == bool(node.head_is_left) for r in lab):
            E.violation('tree:head-flag-not-from-rule',
                        f'node {node.cat} ({node.op_string}) has head_is_left={node.head_is_left}; the rule that created it has '
                        f'{[r.head_is_left for r in lab]}', wit)
    rec(tree)
    return ok


def check_glue(E, out, wit):
    if out['ub']:
        E.violation('glue:ub-index', f'the glue code would execute undefined behaviour: {out["ub"][0]}', wit)
    if out['swallowed']:
        E.violation('glue:swallowed-exception', f'an exception was swallowed inside a noexcept finalizer: {out["swallowed"][0]}', wit)


def run_and_check(E, case, sample=False, nontrivial_rule='derivations>=2'):
    """one case through the real search + all monitors; returns list of per-sentence summaries"""
    R = E.R
    wit = {'case': case_to_json(case)}
    R.last(wit)
    out = E.run(case)
    if out['error'] is not None:
        if isinstance(out['error'], MemoryError):
            R.count('harness:memory-limit-hit')          # address-space limit of the shard, not a verdict
            return []
        R.case(stable_hash(wit), True)
        E.violation('run:raises', f'depccg.parsing.run raised {out["error"]!r}', wit)
        return []
    check_glue(E, out, wit)
    if len(out['results']) != len(case['sentences']):
        E.violation('tree:not-a-result', f'{len(out["results"])} result lists for {len(case["sentences"])} sentences', wit)
        return []
    sums = []
    for si in range(len(case['sentences'])):
        s = check_sentence(E, case, si, out, witness=dict(wit, sentence=si), sample=sample and si == 0)
        sums.append(s)
    return sums

"""Reference statement of the English combinatory schemas (C03), over refcat tuples.
Inputs are the categories with 'nb' erased (the grammar's own normalisation, checked by C14)."""
from vlib import refcat
from vlib.refunify import compatible, is_var_feat

ASCII = set('abcdefghijklmnopqrstuvwxyzABCDEFGHIJKLMNOPQRSTUVWXYZ')


def A_(base, feat=None):
    return ('A', base, None if feat is None else ('U', feat))


def F_(l, s, r):
    return ('F', l, s, r)


S_DCL, S_EM = A_('S', 'dcl'), A_('S', 'em')
LISTED_BA = (S_DCL, F_(S_EM, '\\', S_EM))
VP = F_(A_('S'), '\\', A_('NP'))
LISTED_TC = {
    (A_(','), F_(A_('S', 'ng'), '\\', A_('NP'))): F_(VP, '\\', VP),
    (A_(','), F_(A_('S', 'pss'), '\\', A_('NP'))): F_(VP, '\\', VP),
    (A_(','), F_(A_('S', 'dcl'), '/', A_('S', 'dcl'))): F_(VP, '/', VP),
}


def match(b1, b2):
    """same shape, compatible features; None = outside the domain (mixed feature systems)"""
    if refcat.blind(b1) != refcat.blind(b2):
        return False
    ok = True
    for p, q in zip(refcat.atoms(b1), refcat.atoms(b2)):
        c = compatible(p[2], q[2])
        if c is None:
            return None
        ok = ok and c
    return ok


def forced_bindings(b1, b2):
    """variable feature -> the one concrete feature it meets at EVERY one of its occurrences in the matched parts (nothing
    is forced when an occurrence meets no feature, another variable, or two different features: the statement leaves the
    choice open there, and so does the code)"""
    met = {}
    for p, q in zip(refcat.atoms(b1), refcat.atoms(b2)):
        for v, o in ((p[2], q[2]), (q[2], p[2])):
            if is_var_feat(v):
                met.setdefault(v, []).append(o)
    out = {}
    for v, os_ in met.items():
        if all(o is not None and not is_var_feat(o) and o == os_[0] for o in os_):
            out[v] = os_[0]
    return out


def is_inst(got, a, input_feats, forced=None):
    if refcat.blind(got) != refcat.blind(a):
        return False
    for g, p in zip(refcat.atoms(got), refcat.atoms(a)):
        if forced and is_var_feat(p[2]) and p[2] in forced:
            if g[2] != forced[p[2]]:
                return False            # the variable met exactly this feature in the consumed argument
            continue
        if g[2] == p[2]:
            continue
        if is_var_feat(p[2]) and g[2] in input_feats:
            continue
        return False
    return True


def fslash(v, allowed):
    return v[0] == 'F' and v[2] in allowed


def is_modifier(v):
    return v[0] == 'F' and v[1] == v[3]


def is_punct(v):
    return v[0] == 'A' and (v[1][0] not in ASCII or v[1] in ('LRB', 'RRB', 'LQU', 'RQU'))


def is_type_raised(v):
    return v[0] == 'F' and v[3][0] == 'F' and v[3][1] == v[1]


def bare_n(v):
    return v[0] == 'A' and v[1] in ('N', 'NP') and v[2] is None


def _feats(x, y):
    return {a[2] for a in refcat.atoms(x) + refcat.atoms(y)} | {None}


def premises(x, y):
    """For each composition/application schema whose premises hold: (label, symbol, A, B, B', modifier?, builder)
    builder(instA, instC, instD) -> schematic result; parts C/D may be None."""
    out = []
    FW, BW = ('/', '|'), ('\\', '|')
    if fslash(x, FW):
        A, B = x[1], x[3]
        out.append(('fa', '>', (A,), B, y, is_modifier(x), y, lambda a: a[0]))
        if fslash(y, FW):
            out.append(('fc', '>B', (A, y[3]), B, y[1], is_modifier(x), y, lambda a: F_(a[0], '/', a[1])))
        if y[0] == 'F' and fslash(y[1], FW):
            ys = y[2]
            out.append(('gfc', '>B', (A, y[1][3], y[3]), B, y[1][1], is_modifier(x), y,
                        lambda a, ys=ys: F_(F_(a[0], '/', a[1]), ys, a[2])))
    if fslash(y, BW):
        A, B2 = y[1], y[3]
        out.append(('ba', '<', (A,), x, B2, is_modifier(y), x, lambda a: a[0]))
        if fslash(x, FW):
            out.append(('bx', '<B', (A, x[3]), x[1], B2, is_modifier(y), x, lambda a: F_(a[0], '/', a[1])))
        if x[0] == 'F' and fslash(x[1], FW):
            xs = x[2]
            out.append(('gbx', '<B', (A, x[1][3], x[3]), x[1][1], B2, is_modifier(y), x,
                        lambda a, xs=xs: F_(F_(a[0], '/', a[1]), xs, a[2])))
    return out


def justified(x, y, res):
    """res = (cat, op_string, op_symbol, head_is_left). Returns (ok, why); ok None = outside the domain."""
    cat, label, symbol, head = res
    if head is not True:
        return False, 'head is not the left child'
    feats = _feats(x, y)
    if label in ('fa', 'ba', 'fc', 'bx', 'gfc', 'gbx'):
        if label == 'ba' and symbol == '<' and (x, y) == LISTED_BA and cat == x:
            return True, ''
        for lab, sym, parts, b1, b2, modifier, other, build in premises(x, y):
            if lab != label:
                continue
            if sym != symbol:
                return False, f'symbol {symbol!r} does not belong to {label}'
            m = match(b1, b2)
            if m is None:
                return None, 'mixed feature systems'
            if not m:
                continue
            if label in ('bx', 'gbx') and bare_n(b1) and bare_n(b2):
                return False, 'backward crossed composition over a bare N/NP'
            if modifier:
                if cat == other:
                    return True, ''
                return False, f'modifier must return the other category {refcat.ref_print(other)} unchanged'
            # schematic result with instantiated parts
            want = build(parts)
            if refcat.blind(cat) != refcat.blind(want):
                return False, f'result shape differs from the schema result {refcat.ref_print(want)}'
            if is_inst(cat, want, feats, forced_bindings(b1, b2)):
                return True, ''
            return False, f'features of the result do not come from the schema parts/inputs (schema: {refcat.ref_print(want)})'
        return False, f'premises of {label} do not hold'
    if label == 'conj' and symbol == '<Φ>':
        if x == A_('conj') and y == F_(A_('NP'), '\\', A_('NP')) and cat == y:
            return True, ''
        if x in (A_(','), A_(';'), A_('conj')) and not is_punct(y) and not is_type_raised(y) and cat == F_(y, '\\', y):
            return True, ''
        return False, 'conjunction premises do not hold'
    if label == 'lp' and symbol == '<lp>':
        if is_punct(x) and cat == y:
            return True, ''
        if x in (A_('LQU'), A_('LRB')) and cat == F_(y, '\\', y):
            return True, ''
        return False, 'left punctuation premises do not hold'
    if label == 'rp' and symbol == '<rp>':
        if is_punct(y) and cat == x:
            return True, ''
        return False, 'right punctuation premises do not hold'
    if label == 'lp' and symbol == '<*>':
        if LISTED_TC.get((x, y)) == cat:
            return True, ''
        return False, 'not one of the listed type-changing pairs'
    return False, f'unknown label/symbol {label!r}/{symbol!r}'


def converse(x, y):
    """[(label, symbol, category)] that must be present: premises hold with identical matched parts."""
    out = []
    for lab, sym, parts, b1, b2, modifier, other, build in premises(x, y):
        if b1 != b2:
            continue
        if lab in ('bx', 'gbx') and bare_n(b1):
            continue
        out.append((lab, sym, other if modifier else build(parts)))
    # conjunction, punctuation absorption and the listed type-changing pairs have no matched parts: their premises alone decide
    if x in (A_(','), A_(';'), A_('conj')) and not is_punct(y) and not is_type_raised(y):
        out.append(('conj', '<Φ>', F_(y, '\\', y)))
    if x == A_('conj') and y == F_(A_('NP'), '\\', A_('NP')):
        out.append(('conj', '<Φ>', y))
    if is_punct(x):
        out.append(('lp', '<lp>', y))
    if x in (A_('LQU'), A_('LRB')):
        out.append(('lp', '<lp>', F_(y, '\\', y)))
    if is_punct(y):
        out.append(('rp', '<rp>', x))
    if (x, y) in LISTED_TC:
        out.append(('lp', '<*>', LISTED_TC[(x, y)]))
    if (x, y) == LISTED_BA:
        out.append(('ba', '<', x))
    return out

"""Workload sources shared by several checks (reference-side values are refcat tuples)."""
import functools
import itertools
import os
import re

from vlib import env, refcat

EN_BASES = ('S', 'N', 'NP', 'PP')
EN_PUNCT = ('conj', ',', '.', 'LRB', ';', ':', 'RRB', 'LQU', 'RQU')
EN_FEATS = (None, 'X', 'nb', 'dcl', 'b', 'em', 'ng', 'pss', 'adj', 'to')
JA_TRIPLES_S = (
    (('mod', 'nm'), ('form', 'base'), ('fin', 'f')),
    (('mod', 'nm'), ('form', 'base'), ('fin', 't')),
    (('mod', 'adn'), ('form', 'base'), ('fin', 'f')),
    (('mod', 'adv'), ('form', 'cont'), ('fin', 'f')),
    (('mod', 'X1'), ('form', 'X2'), ('fin', 'X3')),
    (('mod', 'X1'), ('form', 'X2'), ('fin', 'f')),
    (('mod', 'nm'), ('form', 'X2'), ('fin', 'X3')),
)
JA_TRIPLES_NP = (
    (('case', 'ga'), ('mod', 'nm'), ('fin', 'f')),
    (('case', 'o'), ('mod', 'nm'), ('fin', 'f')),
    (('case', 'nc'), ('mod', 'nm'), ('fin', 'f')),
    (('case', 'nc'), ('mod', 'X1'), ('fin', 'X2')),
    (('case', 'X1'), ('mod', 'X2'), ('fin', 'X3')),
    (('case', 'ga'), ('mod', 'nm'), ('fin', 't')),
)


def en_atoms(feats=EN_FEATS, bases=EN_BASES, punct=EN_PUNCT[:4]):
    out = [('A', b, None if f is None else ('U', f)) for b in bases for f in feats]
    out += [('A', p, None) for p in punct]
    return out


def ja_atoms():
    out = [('A', 'S', ('T', t)) for t in JA_TRIPLES_S]
    out += [('A', 'NP', ('T', t)) for t in JA_TRIPLES_NP]
    return out


def enumerate_values(atoms, max_atoms, slashes=('/', '\\', '|')):
    """All category values with <= max_atoms atoms, as a dict n -> list."""
    by_n = {1: list(atoms)}
    for n in range(2, max_atoms + 1):
        cur = []
        for k in range(1, n):
            for l in by_n[k]:
                for r in by_n[n - k]:
                    for s in slashes:
                        cur.append(('F', l, s, r))
        by_n[n] = cur
    return by_n


def random_value(rng, atoms, max_atoms, slashes=('/', '\\', '|')):
    n = rng.randint(1, max_atoms)

    def build(n):
        if n == 1:
            return rng.choice(atoms)
        k = rng.randint(1, n - 1)
        return ('F', build(k), rng.choice(slashes), build(n - k))
    return build(n)


# ------------------------------------------------------------------ shipped inventories
@functools.lru_cache(None)
def shipped_strings():
    """Every category string in the shipped model files and test resources, by source."""
    out = {}
    for name in ('targets.en', 'targets.en_rebank', 'targets.ja'):
        out[name] = list(env.load_jsonnet(env.model_path(name + '.jsonnet'))['targets'])
    for name in ('seen_rules.en', 'seen_rules.en_rebank', 'seen_rules.ja'):
        pairs = env.load_jsonnet(env.model_path(name + '.jsonnet'))['seen_rules']
        out[name] = [c for p in pairs for c in p]
    for name in ('unary_rules.en', 'unary_rules.ja'):
        pairs = env.load_jsonnet(env.model_path(name + '.jsonnet'))['unary_rules']
        out[name] = [c for p in pairs for c in p]
    cd = env.load_jsonnet(env.model_path('cat_dict.en.jsonnet'))['cat_dict']
    out['cat_dict.en'] = sorted({c for cats in cd.values() for c in cats})
    out['cli_roots.en'] = 'S[dcl]|S[wq]|S[q]|S[qem]|NP'.split('|')
    for fn in ('tests/cats.txt', 'tests/cats.ja.txt'):
        p = os.path.join(env.REPO, fn)
        if os.path.exists(p):
            out[fn] = [l.strip() for l in open(p, encoding='utf-8') if l.strip()]
    return out


@functools.lru_cache(None)
def seen_pairs(name):
    return [tuple(p) for p in env.load_jsonnet(env.model_path(f'seen_rules.{name}.jsonnet'))['seen_rules']]


@functools.lru_cache(None)
def unary_pairs(name):
    return [tuple(p) for p in env.load_jsonnet(env.model_path(f'unary_rules.{name}.jsonnet'))['unary_rules']]


@functools.lru_cache(None)
def inventory(name):
    """Distinct reference values of a shipped target list (parsed by the reference reader)."""
    seen, out = set(), []
    for s in shipped_strings()[f'targets.{name}']:
        try:
            v = refcat.ref_parse(s)
        except refcat.RefSyntaxError:
            continue
        if v not in seen:
            seen.add(v)
            out.append(v)
    return out

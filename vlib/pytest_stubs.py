"""pytest plugin: lets tests/test_printer.py (not collectable by the baseline: chainer is missing) run under the stub finder.
Used as an extra regression guard after printer/reader repairs:  tools/golden_printer_tests.sh"""
import sys, os
sys.path.insert(0, os.path.dirname(os.path.dirname(os.path.abspath(__file__))))
from vlib import env
env.install()
env.stub_native_parsing()

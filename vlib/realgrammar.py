def run_real_cases(E, rng, spec, R, nontrivial=None):
    pass

"""Search cases over the REAL English / Japanese grammars (rule functions obtained through the real read_params)."""
import numpy as np

from vlib import env, treegen, search, synth
from vlib.runner import stable_hash

_params = {}


def params(lang, seen):
    key = (lang, seen)
    if key not in _params:
        env.install(lang)
        from depccg.allennlp.utils import read_params
        from depccg.cat import Category
        cfg = 'config_en.jsonnet' if lang == 'en' else 'config_ja.jsonnet'
        b, u, _, targets = read_params(env.model_path(cfg), True, not seen)
        if lang == 'en':
            roots = [Category.parse(s) for s in 'S[dcl]|S[wq]|S[q]|S[qem]|NP'.split('|')]
        else:
            roots = list(treegen.index('ja').roots)
        _params[key] = (b, u, roots)
    return _params[key]


def gen_real_case(rng, lang, nbest=1):
    seen = rng.random() < 0.6
    binary, unary, roots = params(lang, seen)
    ix = treegen.index(lang)
    tok = (lambda r: treegen.en_token(r, 'all', 'all')) if lang == 'en' else (lambda r: treegen.ja_token(r, 'all'))
    tree = treegen.licensed_tree(rng, lang, tok, max_leaves=rng.choice((2, 3, 4, 5)), hard_max=5)
    gold = [leaf.cat for leaf in tree.leaves]
    n = len(gold)
    cats = []
    for c in gold:
        if c not in cats:
            cats.append(c)
    while len(cats) < min(len(gold) + rng.randint(1, 3), 7):
        c = rng.choice(ix.inventory)
        if c not in cats:
            cats.append(c)
    rng.shuffle(cats)
    T = len(cats)
    fam = rng.choice(('uniform', 'ties', 'softmax', 'deceptive'))
    if fam == 'softmax':
        tag, dep = synth.logsoftmax_scores(rng, n, T)
    else:
        tag, dep = synth.dyadic_scores(rng, n, T, fam)
    if rng.random() < 0.7:
        for i, c in enumerate(gold):                 # make the generating derivation attractive
            tag[i, cats.index(c)] = max(tag[i].max(), -0.25 if fam != 'softmax' else tag[i].max())
    cfg = {'unary_penalty': rng.choice((0.0, 0.125, 0.5)), 'nbest': nbest, 'pruning_size': rng.choice((2, 3, 3, T)),
           'use_beta': False, 'beta': 0.00001, 'max_step': 20000, 'max_length': 250}
    return {'kind': 'real', 'lang': lang, 'seen_rules': seen, 'grammar': None, 'binary': binary, 'unary': unary,
            'head_left': lang == 'en', 'cats': cats, 'roots': roots, 'sentences': [([t['word'] for t in tree.tokens], tag, dep)],
            'config': cfg, 'family': fam, 'exact': fam != 'softmax'}


def run_real_cases(E, rng, spec, R, nontrivial=None):
    lang = spec['lang']
    env.install(lang)
    for i in range(spec['cases']):
        try:
            case = gen_real_case(rng, lang, nbest=1 if rng.random() < 0.7 else rng.choice((2, 3)))
        except LookupError:
            continue
        sums = search.run_and_check(E, case, sample=i % 20 == 0)
        fp = stable_hash(search.case_to_json(case))
        for s in sums:
            R.case(fp, bool(nontrivial(s, case)) if nontrivial else True)
            R.count(f'real-grammar:{lang}-sentences')
        if R.out_of_time():
            break

#!/bin/sh
# Offline setup: contracts library beside the repository's interpreter (git-ignored .deps).
set -e
cd "$(dirname "$0")"
if [ ! -d .deps/icontract ]; then
  mkdir -p .deps
  /venv/bin/python -m pip install -q --no-index --find-links /opt/veriftools/wheels --target .deps icontract
fi
mkdir -p evidence replay build
/venv/bin/python -c "import sys; sys.path.insert(0,'.deps'); import icontract; print('icontract', icontract.__version__)"

#!/usr/bin/env python3
"""tools/addfinding.py <property> <key> <status> <commit|-> <what...>"""
import json, sys, os
p = os.path.join(os.path.dirname(os.path.dirname(os.path.abspath(__file__))), 'known_findings.json')
d = json.load(open(p))
prop, key, status, commit = sys.argv[1:5]
what = ' '.join(sys.argv[5:])
e = {'property': prop, 'key': key, 'status': status, 'what': (f'fixed: property={prop} {commit} ' if status == 'fixed' else '') + what}
if commit != '-':
    e['commit'] = commit
d['findings'] = [f for f in d['findings'] if not (f['property'] == prop and f['key'] == key)] + [e]
json.dump(d, open(p, 'w'), indent=1, ensure_ascii=False)
print('ok', len(d['findings']))

#!/bin/sh
# golden printer tests of the repository under the stub finder (the ccg2lambda one needs nltk's logic engine and is expected to fail)
cd "${VERIF_REPO:-/repo}" && PYTHONPATH=/verif:/verif/.deps PYTHONWARNINGS=ignore /venv/bin/python -m pytest -q -p no:cacheprovider -p vlib.pytest_stubs tests/test_printer.py "$@"

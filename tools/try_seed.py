#!/usr/bin/env python3
"""tools/try_seed.py <seed dir> <property> [more checks...]
Confirms a seeded change in a scratch worktree (outside /repo and /verif) and runs checks against it:
 1. git worktree of /repo HEAD + apply patch.diff   2. pinned test-suite must still pass
 3. demo fails with the change, passes without       4. ./vcheck <check> with VERIF_REPO=<worktree>
Prints a JSON summary; removes the worktree."""
import json, os, shutil, subprocess, sys, tempfile, re

seed = os.path.abspath(sys.argv[1])
checks = sys.argv[2:]
VERIF = os.path.dirname(os.path.dirname(os.path.abspath(__file__)))
tmp = tempfile.mkdtemp(prefix='mt-')
wt = os.path.join(tmp, 'wt')
clean = os.path.join(tmp, 'clean')
out = {'seed': seed, 'checks': {}}


def sh(cmd, **kw):
    return subprocess.run(cmd, shell=True, capture_output=True, text=True, **kw)


try:
    for d in (wt, clean):
        r = sh(f'git -C /repo worktree add -q --detach {d} HEAD')
        assert r.returncode == 0, r.stderr
    r = sh(f'git -C {wt} apply {seed}/patch.diff')
    out['applies'] = r.returncode == 0
    if not out['applies']:
        out['apply_error'] = r.stderr[-500:]
        checks = []
        raise StopIteration
    if os.environ.get('TRY_SEED_CHECKS_ONLY'):
        raise StopIteration
    r = sh(f'cd {wt} && /venv/bin/python -m pytest -q -p no:cacheprovider --timeout=900 --continue-on-collection-errors 2>&1 | tail -1')
    out['tests'] = r.stdout.strip()
    out['tests_pass'] = '3583 passed' in r.stdout
    demo = None
    for cand in ('run.sh', 'demo.py'):
        if os.path.exists(os.path.join(seed, cand)):
            demo = cand
            break
    if demo:
        cmd = f'bash {seed}/{demo}' if demo.endswith('.sh') else f'/venv/bin/python {seed}/{demo}'
        a = sh(f'cd {seed} && REPO={wt} timeout 600 {cmd}')
        b = sh(f'cd {seed} && REPO={clean} timeout 600 {cmd}')
        out['demo'] = {'with_change_rc': a.returncode, 'without_change_rc': b.returncode,
                       'with_change_tail': (a.stdout + a.stderr)[-300:]}
        out['demo_ok'] = a.returncode != 0 and b.returncode == 0
except StopIteration:
    pass
finally:
    pass
try:
    env = dict(os.environ, VERIF_REPO=wt, VERIF_OUT=os.path.join(tmp, 'out'))
    for c in checks:
        r = subprocess.run([os.path.join(VERIF, 'vcheck'), c, '--tier', 'quick'], capture_output=True, text=True, env=env, cwd=VERIF)
        keys = sorted(set(re.findall(r'key=(\S+)', r.stdout)))
        inc = re.findall(r'INCONCLUSIVE.*', r.stdout)
        out['checks'][c] = {'rc': r.returncode, 'keys': keys, 'inconclusive': [i[:200] for i in inc[:2]],
                            'summary': r.stdout.strip().split('\n')[-1][:200] if not keys else ''}
finally:
    for d in (wt, clean):
        sh(f'git -C /repo worktree remove --force {d}')
    shutil.rmtree(tmp, ignore_errors=True)
print(json.dumps(out, indent=1))

#!/usr/bin/env python3
"""Regenerates MANIFEST.json from the table below (keeps it valid against the schema)."""
import json
import os
import sys

HERE = os.path.dirname(os.path.dirname(os.path.abspath(__file__)))

CHECKS = {
    # id: (technique, level text, level note, design ref)
    'C05': ('icontract post-conditions on the real Category.parse/__str__ vs an independent reference reader/printer; '
            'exhaustive-bounded + random + shipped-string workload',
            'Runtime contracts observe every parse/print of all values with <=3 atoms (thorough: sampled 4 atoms, random to 12), '
            'decorated texts and bracket-dropping mutations; held-on-observed, not a proof.',
            'Trusts vlib/refcat.py as the statement of the text grammar; blanks = spaces.', '§4 C05'),
    'C13': ('icontract post-conditions on the real __eq__/__xor__/clear_features vs reference structure; law checks '
            '(symmetry, hash, dict lookup, transitivity, idempotence) over mutation-generated pairs',
            'Every value with <=3 atoms over a small two-system alphabet against its copies, single-point mutations, near-miss '
            'strings and random erasure sets; held-on-observed.',
            'Trusts vlib/refcat.py; erased names are unary feature values.', '§4 C13'),
}

CHECKS['C06'] = (
    'icontract post-conditions on the real Unification.__call__/__getitem__ vs a reference matcher; pattern instantiation + perturbation workload',
    'Success/failure verdict and every binding of every call are compared with the reference matcher over the grammar\'s pattern pairs and random ones; '
    'read-after-failure and second-call are driven explicitly; held-on-observed.',
    'Trusts vlib/refunify.py; a pattern variable occurs once per pattern; one feature system per call.', '§4 C06')
CHECKS['C03'] = (
    'icontract post-condition on the real en.apply_binary_rules vs a schema table (soundness of every result, converse on identical parts); '
    'inventory pairs, seen-rule pairs, rule closure, perturbed schema instantiations',
    'Every result of every call is judged against the schema its label names; Unification contracts stay on underneath; held-on-observed.',
    'Trusts vlib/schemas_en.py; unary features only; judged on nb-erased inputs.', '§4 C03')
CHECKS['C04'] = (
    'icontract post-conditions on the real ja.apply_binary_rules/apply_unary_rules vs a table-driven schema reference; '
    'inventory pairs, seen-rule pairs, closure, perturbed schema instantiations, shipped + synthetic unary inputs',
    'Every result of every call is judged against the schema its symbol names (head right, slash of crossed composition, '
    'instantiation of triples); unary labels judged against the input shape; held-on-observed.',
    'Trusts vlib/schemas_ja.py; all S/NP atoms carry triples.', '§4 C04')
CHECKS['C14'] = (
    'purity/stability/gate/nb/unary-table monitors around the real rule functions; identical workloads evaluated in fresh interpreters under '
    'different PYTHONHASHSEED values (every other process in reverse order) and compared by per-call digests',
    'Arguments fingerprinted before/after, calls repeated, seen-rule gate and nb-independence compared with the unrestricted call, unary '
    'results compared with the table; 6 (quick) / 24 (thorough) hash seeds per input block; held-on-observed.',
    'Hash seeds and inputs are sampled; in-domain = one feature system per grammar.', '§4 C14')
CHECKS['C17'] = (
    'before/after snapshot monitor around the real apply_category_filters vs an independent numpy.where mask; shipped dictionary and '
    'inventories through the real read_params with the Category.parse contract on',
    'Every token row, every dependency matrix and token identity/order compared bit for bit on random documents/dictionaries in both call '
    'forms; rejection of unlisted categories driven explicitly; all 6902 shipped words in one document; held-on-observed.',
    'Random documents are sampled; expected mask computed by the harness.', '§6')
SEARCH_NOTE = ('Real parsing.h (plain and ASan+UBSan builds via a generated C ABI shim) under the real parsing.pyx executed by pyxlite under the '
               'real depccg.parsing.run; pop hook trace read natively. Trusts vlib/oracle_cky.py and pyxlite\'s emulation of Cython typed semantics.')
CHECKS['C01'] = (
    'online monitor over the pop-hook trace (priorities non-increasing) + first parse vs exhaustive-CKY reference + failure legitimacy, '
    'plain and ASan/UBSan builds',
    'Thousands of sentences over random head-uniform table grammars and five score families (exact arithmetic for dyadic scores); held-on-observed.',
    SEARCH_NOTE, '§3 C01')
CHECKS['C02'] = (
    'structural validator over every returned tree, re-querying the grammar callable, membership in the reference enumeration; glue UB / '
    'swallowed-exception flags; ASan/UBSan builds; a share of the workload under valgrind memcheck (uninitialised reads)',
    '1-best and n-best lists; leaves must be the input token objects with admitted tags, nodes grammar results, allowed root, no unary at root.',
    SEARCH_NOTE, '§3 C02')
CHECKS['C09'] = (
    'score recomputed from the returned tree alone (its own head flags) vs ScoredTree.score, exact for dyadic families',
    'All trees of all lists, both head directions, penalties incl. 0; placeholder must carry -inf.', SEARCH_NOTE, '§3 C09')
CHECKS['C10'] = (
    'n-best list vs complete enumeration of derivations by the reference (count, distinctness, order, top-k scores, first == 1-best)',
    'Sentences small enough to enumerate; k from 1 to #derivations+3; ties included.', SEARCH_NOTE, '§3 C10')
CHECKS['C16'] = (
    'leaf tags vs an independent must/may statement of the beam; parse/fail flips vs reference over may/must sets; rows built around the beta '
    'and rank boundaries, flattened and deep-negative rows, n-best, the multiprocessing path, and the real CLI argument parser',
    'Boundary-centred rows, flattened rows, beta 1e-5..0.9, pruning 1..60, filter on/off.', SEARCH_NOTE, '§3 C16')
CHECKS['C07'] = (
    'real to_string on deep copies -> independent decoder per format -> structural comparison with the source derivation (words, shape, '
    'categories, labels, heads, attributes, offsets, conll heads, numbering)',
    'Grammar-licensed and arbitrary trees, hostile tokens within each format\'s representable domain, batches x n-best, both languages.',
    'Trusts vlib/codecs.py and vlib/fmtcheck.py as statements of the formats.', '§5 C07')
CHECKS['C08'] = (
    'real to_string(auto) -> real read_auto -> structural comparison + real auto_of reprint (string equality) + conll fragment concatenation',
    'Licensed and arbitrary trees, both head directions, tokens that are or contain brackets/angle characters, both languages.',
    'Token domain as stated in DESIGN C08 (CCGbank repair patterns excluded).', '§5 C08')
CHECKS['C20'] = (
    'real to_string(ptb) -> real read_ptb and real ja_of -> real read_ccgbank (plain + injected bank annotations) -> structural comparison; '
    'truncated / closer-deleted PTB lines must raise',
    'Unary and binary nodes, bracket tokens, ~18000 incomplete lines per quick run.', 'Token domains per DESIGN C20.', '§5 C20')
CHECKS['C12'] = (
    'parser half: node label/symbol/head flag vs the grammar results for the node\'s children in table grammars with unique labels (real '
    'search, plain + ASan); reader half: trees read by the real readers / Tree.of_nltk_tree judged against the active grammar',
    'Same-category-different-label results (up to 4 per pair), several differently labelled unary targets, left/right/mixed heads, n-best; auto '
    '(also with foreign head fields), xml, jigg_xml, ptb and nltk-style input for both languages and for one process switching languages; '
    'underivable nodes must be unk.', SEARCH_NOTE, '§3 C12a / §5 C12b')
CHECKS['C15'] = (
    'real to_string(xml)->real read_xml, real to_string(jigg_xml)->real read_jigg_xml (ja), integrity monitor over every Jigg document, real '
    'build_ccg_tree isomorphism and real normalize_tokens',
    'Batches x n-best, licensed and arbitrary trees, hostile XML-representable tokens.', 'Trusts vlib/codecs.py; "logic punctuation" = . , ( ) ! - and lone & / -.', '§5 C15')
CHECKS['C18'] = (
    'deep object-graph fingerprint before/after every rendering + output equality against the same rendering of a pristine deep copy, over '
    'random format sequences on the same objects; pairs of fresh processes rendering the same results in opposite format orders, the '
    'second with a shifted clock',
    'All CLI formats via to_string and the per-format functions, sequences of 2-6 renderings with repeats.', 'Fingerprint covers Tree/Token/Category objects.', '§5 C18')
CHECKS['C19'] = (
    'no-exception + batch-isolation monitor over every CLI format (list read from depccg/argparse.py) for trees covering every label the rule '
    'functions emit and the placeholder obtained from the real search',
    'ccg2lambda/jigg_xml_ccg2lambda are NOT covered (nltk missing) - stated gap.', 'Label coverage is enforced: a run that did not render every reachable label is inconclusive.', '§5 C19')
CHECKS['C11'] = (
    'history/schedule differencing of the real depccg.parsing.run: batch vs each sentence alone in a fresh call vs permutation vs subset '
    '(in-process, plain + ASan), real multiprocessing path with injected per-worker delays vs in-process result, shape-mismatch inputs '
    'with a parse_sentence call counter',
    'Batches mixing parseable, unparseable, over-long, budget-exhausted and zero-token sentences, narrow beams, failure legitimacy at the '
    'max_length boundary, iter_parse_results pairing; processes 1..8, chunk sizes 1..20.',
    SEARCH_NOTE + ' Schedules are sampled.', '§3 C11')

NOT_YET = {}


def main():
    props = [json.loads(l) for l in open(os.path.join(HERE, 'properties.jsonl'))]
    checks, na = [], []
    for p in props:
        pid = p['id']
        if pid in CHECKS:
            tech, text, note, ref = CHECKS[pid]
            checks.append({
                'property_id': pid,
                'quick_cmd': f'./vcheck {pid} --tier quick',
                'thorough_cmd': f'./vcheck {pid} --tier thorough',
                'evidence_file': f'evidence/{pid}.json',
                'replay_cmd_template': f'./vcheck {pid} --replay {{path}}',
                'engine': 'vcheck',
                'level_claimed': {'category': 'exploration', 'text': text, 'design_ref': ref},
                'level_note': note,
                'technique': 'runtime monitoring: ' + tech,
            })
        else:
            na.append({'property_id': pid, 'reason': NOT_YET.get(
                pid, 'monitor designed (DESIGN.md) but not built/validated yet in this tree; not claimed until its check runs clean')})
    manifest = {
        'version': 1,
        'setup_cmd': './setup.sh',
        'hooks': {
            'guard': 'DEPCCG_VERIF',
            'enable': 'environment variable DEPCCG_VERIF=1 (set by ./vcheck for every shard); parsing.h is compiled by the checks themselves',
            'baseline_off_cmd': 'cd /repo && env -u DEPCCG_VERIF /venv/bin/python -m pytest -ra -q -p no:cacheprovider --timeout=900 --continue-on-collection-errors',
            'source_commits': HOOK_COMMITS,
            'add_only': True,
        },
        'engines': [{'name': 'vcheck', 'path': 'vcheck', 'serves_properties': sorted(CHECKS),
                     'kind_free_text': 'sharded runtime-monitoring driver (contracts, reference oracles, sanitizer builds of parsing.h)'}],
        'checks': checks,
        'not_applicable': na,
        'notes': 'All verdicts are held-on-observed / violated-with-replay / inconclusive (exit 2). See DESIGN.md.',
    }
    with open(os.path.join(HERE, 'MANIFEST.json'), 'w') as f:
        json.dump(manifest, f, indent=1)
    print('claimed', len(checks), 'not claimed', len(na))


HOOK_COMMITS = ['8c787c5']

if __name__ == '__main__':
    main()

#!/usr/bin/env python3
"""Copies confirmed seeded changes from /tmp/seedout into /verif/seeded/<prop>-<mN>/ and (re)runs each against the
property's quick check (plus extra checks listed in EXTRA) through tools/try_seed.py; writes meta.json and SUMMARY.md."""
import json, os, shutil, subprocess, sys

VERIF = os.path.dirname(os.path.dirname(os.path.abspath(__file__)))
SRC = '/tmp/seedout'
SOURCES = [('/tmp/seedout', ''), ('/tmp/seedout2', 'r2'), ('/tmp/seedout3', 'r3'), ('/tmp/seedout4', 'r4'), ('/tmp/seedout5', 'r5'), ('/tmp/seedout6', 'r6')]
NEEDS = {
 'C01-m1': 'one-token sentence whose only/best route to a root category needs a unary rule',
 'C01-m2': 'lp rule made head-right: span with two derivations of one category and different heads (runs of punctuation)',
 'C01-m3': 'head-left grammar, right part popped after its left neighbour, right head has a lower best dependency score',
 'C02-m1': '>=2 tokens, full-span non-root category with a unary rule into the root set, and that route wins',
 'C02-m2': 'a token with more than pruning_size tags above the beta cut; the tag ranked pruning_size+1 is needed',
 'C02-m3': 'same word + same supertag seen earlier in the process with a different Token object (leaf memoised)',
 'C03-m1': 'matched sub-category with a nested functor (>=4 atoms) differing in one concrete feature on a specific leaf',
 'C03-m2': 'gbx with forward outer slash on the left input and a non-modifier right input',
 'C03-m3': 'two pairs equal up to [X] combined in one process; the second gets the first one\'s cached result',
 'C04-m1': '<B3 with a forward middle slash ((B\\C)/D)|E and a non-modifier secondary',
 'C04-m2': 'shared variable bound to a functor whose left child is a functor (>=3 atoms): later leaves never compared',
 'C04-m3': 'two unary inputs with the same head atom but different arity type-changed in one process (memo keyed on head atom)',
 'C05-m1': 'two unbracketed slashes inside a bracket pair, e.g. (S/NP/NP)',
 'C05-m2': 'a bare atom with a leading/trailing blank',
 'C05-m3': 'redundant angle brackets around one finished category, e.g. <NP>, S/<NP>',
 'C06-m1': 'shared variable bound to functors whose feature-less leaves sit at different positions on the two sides',
 'C06-m2': 'x has a concrete feature where y has none/nb at a shared position; binding read by a non-modifier rule',
 'C06-m3': 'shape matches, features clash, then a binding is read after the failed match',
 'C07-m1': 'jigg_xml with >=2 n-best trees per sentence (offset counter not reset)',
 'C07-m2': 'prolog with a backslash in a word or lemma',
 'C07-m3': 'json with n-best trees sharing Token objects and differing in a leaf category',
 'C08-m1': 'a token containing both < and >',
 'C08-m2': 'a token ending in / read through read_auto (CCGbank repair generalised)',
 'C08-m3': 'conll with a token that is a bracket or contains < or >',
 'C09-m1': 'head token whose best dependency score is not in the ROOT column',
 'C09-m2': 'unary node over a multi-token constituent whose head is not its leftmost token (head-final grammar)',
 'C09-m3': 'one category pair with >=2 results of different head directions',
 'C10-m1': 'k>=2 and two derivations of one category over one span with bit-identical scores',
 'C10-m2': 'k>=2 and a cell holding >=2 categories when a needed further derivation arrives',
 'C10-m3': 'a non-root category derivable over the whole sentence accepted before the k-th root analysis',
 'C11-m1': 'pool path with >=2 processes and a later chunk finishing before an earlier one',
 'C11-m2': '>=2 sentences in one process, narrow beam: left-over per-word tag queue of the earlier sentence',
 'C11-m3': 'score ties between derivations whose rule-created categories got their ids in a different order earlier in the call',
 'C12-m1': 'a category with >=2 differently labelled unary results, non-first one used',
 'C12-m2': 'same (parent,left,right) triplet looked up under two different active languages in one process',
 'C12-m3': 'AUTO file whose head field disagrees with the grammar\'s head direction for a derivable node',
 'C13-m1': 'categories identical except [nb] vs no feature used together in a set/dict',
 'C13-m2': 'two clear_features calls with different name sets on the same functor object',
 'C13-m3': 'functor compared with a non-canonical string spelling',
 'C14-m1': 'one feature variable bound to different values + results compared across PYTHONHASHSEED values',
 'C14-m2': 'ja pair queried twice in one process with different seen-rule sets',
 'C14-m3': 'en unary lookup of a category carrying nb with a table that distinguishes it',
 'C15-m1': 'jigg xml with >=2 n-best trees (span ids restart per tree)',
 'C15-m2': 'token with base="*" (base copied from surf is not normalised)',
 'C15-m3': 'one xml file containing the same child pair under two different parent categories',
 'C16-m1': 'second sentence in the same process after one that left out-of-beam tags at the same position',
 'C16-m2': 'more than max_chunk_size sentences (pool path) with pruning_size < 50',
 'C16-m3': 'filter disabled and a needed tag whose exp(score) underflows to 0 (flattened row)',
 'C17-m1': 'a dictionary word occurring twice in one sentence',
 'C17-m2': 'sentence-initial token that is not a key but whose lower-cased form is',
 'C17-m3': "a shipped category string containing a blank (', ' in targets.en)",
 'C18-m1': 'tokens without a lemma key, jigg_xml rendered first, then anything else on the same objects',
 'C18-m2': 'xml rendered first, then jigg_xml/html/xml on the same trees (cached token list consumed)',
 'C18-m3': 'json rendering of fewer sentences than an earlier json rendering in the same process',
 'C19-m1': 'json format with a failure placeholder (-inf) in the batch',
 'C19-m2': 'ja prolog with a >Bx3 (or <B4) node',
 'C19-m3': 'en prolog with the type-changing comma analysis (label renamed, printer not told)',
 'C20-m1': 'PTB line cut right after a closing bracket (partial tree returned)',
 'C20-m2': 'Japanese tree with an ADNext or >Bx3 node',
 'C20-m3': 'PTB token with a ) that is not at its end',
}
NEEDS.update({
 'C01-r2m1': 'head-right grammar and a token whose best dependency score is its arc to the last token (argmax stops one column early)',
 'C01-r2m2': 'beta filter off and a needed tag whose exp(score) underflows to 0 (flattened row)',
 'C01-r2m3': 'best/only derivation needs two consecutive unary rules over one span',
 'C02-r2m1': 'beta on, best tag below about -92 so that the threshold underflows to 0, a hopeless tag (exp == 0) then admitted by >=',
 'C02-r2m2': 'category table with >= 65 ids and a full-span item whose id equals a root id modulo 64',
 'C02-r2m3': 'a zero-token sentence followed by another sentence, consumed through iter_parse_results',
 'C03-r2m1': 'right input exactly the modifier N\\N or NP\\NP and left input N/... or NP/... (bare N/NP guard bypassed)',
 'C03-r2m2': 'conjunction with a right input of shape NP\\NP (dead clause woken by ^ accepting strings): schema result missing',
 'C03-r2m3': 'the single pair , + S[dcl]/S[dcl] (head flag flipped)',
 'C04-r2m1': 'shared variable bound on both sides to functors with the same atoms but a different slash (^ ignores slashes)',
 'C04-r2m2': '<B2 with a true modifier X\\X on the right: head flag left',
 'C04-r2m3': 'SSEQ with S[mod=nm,form=attr|hyp|r|s,fin=f] (root list rebuilt as a product)',
 'C05-r2m1': 'a blank next to or inside the square brackets of a feature',
 'C05-r2m2': 'one category mixing a unary and a three-part feature',
 'C05-r2m3': 'punctuation atom as operand of a slash or inside redundant brackets, e.g. (:\\NP)/PP',
 'C06-r2m1': 'second call of a matcher whose first call failed in the shape phase',
 'C06-r2m2': 'input category with a | slash where the pattern has / or \\',
 'C06-r2m3': 'shared variable bound to functors of the same shape but a different inner slash',
 'C07-r2m1': 'xml with two tokens equal in every attribute in one sentence (offset looked up by value)',
 'C07-r2m2': 'ja format with a filled attribute after a blank one in the pos / inflection hierarchy',
 'C07-r2m3': 'conll with a binary node whose head direction differs from the root\'s',
 'C08-r2m1': 'underivable right-headed binary node read by read_auto (head flag lost)',
 'C08-r2m2': 'two leaves with the same word and category but different POS printed in one process (memo without POS)',
 'C08-r2m3': 'a token made of two adjacent bracket characters such as () or {}',
 'C09-r2m1': 'a returned leaf whose supertag is not the token\'s 1-best tag',
 'C09-r2m2': 'two directly stacked unary nodes and a non-zero penalty',
 'C09-r2m3': 'one-token sentence with a non-zero ROOT attachment score',
 'C10-r2m1': 'k>=2, unary chain Z->Y->X with X already in the cell by a better route',
 'C10-r2m2': 'k strictly greater than the number of derivations (list reported as failure)',
 'C10-r2m3': 'one-token sentence, k>=2, a root category with a unary rule to another root category',
 'C11-r2m1': 'mis-shaped sentence after a well-shaped one of the same length in one batch',
 'C11-r2m2': 'small max_step: the step budget is consumed across the sentences of one call',
 'C11-r2m3': 'pool path with len(doc) == m*ceil(len/processes)+1 (last one-sentence chunk dropped)',
 'C12-r2m1': 'n-best mode, a child pair with two same-category results and a node built from a later result',
 'C12-r2m2': 'one xml file with the same child pair under two different parents',
 'C12-r2m3': 'PTB reader under a grammar with right-headed rules (Japanese)',
 'C13-r2m1': 'two triple-feature categories differing only in the third key/value pair',
 'C13-r2m2': "triple feature with a variable value and 'X' among the erased names",
 'C13-r2m3': 'two functors with a different number of arguments whose outer arguments agree feature-blind',
 'C14-r2m1': 'seen-rule set given and an [X]-carrying non-modifier functor contributing [X] to the result',
 'C14-r2m2': 'unary table that is a defaultdict and a category that is not configured (table grows)',
 'C14-r2m3': 'a category object garbage collected and another one allocated at the same address (memo by id)',
 'C15-r2m1': 'derivation whose top node is unary (two spans flagged root)',
 'C15-r2m2': 'unary node labelled tr read by read_xml',
 'C15-r2m3': 'a second Jigg XML document processed in the same process (span table cached by ccg id)',
 'C16-r2m1': 'nbest > pruning_size (beam silently widened to nbest)',
 'C16-r2m2': 'filter on and the best tag well ahead of the runner-up (threshold from the runner-up)',
 'C16-r2m3': '--beta given with more than five decimals on the command line (rounded)',
 'C17-r2m1': 'tag-score matrix that is not C-contiguous (writes go to a temporary copy)',
 'C17-r2m2': 'en_rebank configuration given the English dictionary: dictionary categories outside its inventory',
 'C17-r2m3': 'dictionary entry listing the first category of the category list (index 0 treated as missing)',
 'C18-r2m1': 'n-best list whose scores are not descending, jigg_xml rendered first (list sorted in place)',
 'C18-r2m2': 'results rendered as xml, dropped, and later trees allocated at the same addresses (cache by id)',
 'C18-r2m3': 'tree with an lp node, conll rendered first, then auto (head flag written by the printer)',
 'C19-r2m1': 'ja prolog with the unary rule whose source is NP[case=nc,mod=adv,fin=f] (label OTHER)',
 'C19-r2m2': 'printer imported while the language is en, language then set to ja (default argument bound at import)',
 'C19-r2m3': 'en prolog with a token tagged with the lexical category ;',
 'C20-r2m1': 'bank line with dependency annotations on a functor category',
 'C20-r2m2': 'ja format with a token containing < or > (denormalize instead of normalize)',
 'C20-r2m3': 'a printed tree freed and a new tree allocated at the same addresses (ptb cache by id)',
})
HISTORY2 = ({
 'C01-r2m2': 'missed at first by C01 (caught by C16): extreme rows added to C01',
 'C02-r2m1': 'missed at first: rows deep in the negative range (threshold underflow) added',
 'C02-r2m2': 'missed at first: grammars with 70-140 categories added',
 'C02-r2m3': 'missed at first: iter_parse_results monitor added to C11',
 'C03-r2m2': 'missed at first: converse extended to conj / lp / rp / listed type-changing rows',
 'C07-r2m1': 'missed at first: sentences with repeated identical tokens added',
 'C10-r2m2': 'missed at first (placeholder judged only under C01/C16 keys): nbest:count on failure added',
 'C12-r2m1': 'missed at first: up to 4 results per pair with duplicates at any position, more n-best; glue keys owned by C12',
 'C13-r2m2': 'missed at first: variable triples added to the C13 alphabet',
 'C15-r2m1': 'missed at first: trees with a unary step at the root added',
 'C16-r2m1': 'missed at first: n-best cases added to C16',
 'C16-r2m3': 'missed at first: CLI shard (real parse_args) added to C16',
 'C17-r2m1': 'missed at first: non-contiguous score matrices added',
 'C17-r2m2': 'missed at first: every configuration that carries a dictionary is now checked against its own inventory',
 'C18-r2m1': 'missed at first: n-best lists with non-monotone scores added',
 'C19-r2m2': 'missed at first: checks now import the printer before choosing the language, as __main__ does',
})
EXTRA = {'C02-r2m3': ['C11'], 'C01-r2m2': ['C16'], 'C19-r2m2': ['C07'], 'C12-r2m1': ['C02'], 'C16-m2': ['C11'], 'C18-m3': ['C07'], 'C03-m1': ['C06', 'C04'], 'C04-m2': ['C06'], 'C07-m2': ['C19'], 'C15-m1': ['C07']}
HISTORY = {
 'C03-m1': 'missed at first (matched parts had <= 3 atoms); generators widened to 6 atoms + one-leaf perturbation',
 'C09-m3': 'missed at first (C09 used head-uniform grammars only); mixed-head grammars added to C09',
 'C11-m2': 'missed at first (C11 batches used a beam as wide as the tag set); narrow beams added to C11 batches',
 'C12-m2': 'missed at first (one language per process); reader shard that switches the active language added',
 'C12-m3': 'missed at first (AUTO files always carried the grammar\'s head flags); flipped head fields added',
 'C16-m2': 'missed by C16 at first (no pool path; caught by C11 after narrow beams were added); pool shard added to C16',
 'C18-m3': 'missed at first (reference rendering shared the stale process state); up-front references + interference rendering added',
 'C20-m3': 'caught only after the ptb token domain was widened to tokens containing brackets in the middle',
}

HISTORY.update(HISTORY2)
NEEDS.update({
 'C01-r3m1': 'max_step equal to exactly the number of agenda pops the sentence needs (loop counts one step too few)',
 'C01-r3m2': 'all tags of a token inside the beam and the derivation needs that token\'s lowest-scoring tag',
 'C01-r3m3': 'Japanese SSEQ made head-left: >=3 tokens where SSEQ competes with another rule over one span',
 'C02-r3m1': 'nbest >= 2: token counter not reset between returned trees',
 'C02-r3m2': 'two parser runs in one process whose unary tables differ for the same category id (static memo)',
 'C02-r3m3': 'empty root set treated as no restriction',
 'C03-r3m1': 'modifier A/A with a concrete feature applied to an argument carrying [X] there (returns the binding instead of y)',
 'C03-r3m2': 'backward crossed composition over N/NP that carries a feature (guard tests the base only): result missing',
 'C03-r3m3': ', followed by a feature-less S\\NP (type change generalised)',
 'C04-r3m1': 'triple with a variable meets a triple that disagrees in a concrete slot',
 'C04-r3m2': 'unary input headed by NP (feature order case,mod,fin): label OTHER instead of ADV0',
 'C04-r3m3': '<B1 pattern b|c: forward functor Y/Z followed by X\\Y',
 'C05-r3m1': 'well-formed text parsed after a rejected text in the same process (shared scratch stack)',
 'C05-r3m2': 'a | slash inside a bracket pair is read as a backslash',
 'C05-r3m3': 'unary feature spelled like a punctuation category, e.g. NP[conj]',
 'C06-r3m1': 'second pattern passed as a Category object instead of text',
 'C06-r3m2': 'partly variable triple meets a triple differing in a concrete slot',
 'C06-r3m3': 'shared variable bound to a functor whose left part has a complex argument (leaf numbering)',
 'C07-r3m1': 'prolog with >=2 n-best trees for a sentence (running tree counter as id)',
 'C07-r3m2': 'language switched to ja after depccg.printer was imported (use_symbol bound at import)',
 'C07-r3m3': 'auto_extended with a leaf whose entity differs from its chunk',
 'C08-r3m1': 'one-word sentence whose derivation is a bare leaf line',
 'C08-r3m2': 'POS tag that is a bracket character or contains < or >',
 'C08-r3m3': 'token that starts and ends with - and contains < or >',
 'C09-r3m1': 'nbest > 1 and two returned trees with the same root category but different head tokens',
 'C09-r3m2': 'one-token sentence with a unary node and a non-zero penalty',
 'C09-r3m3': 'any sentence that gets the failure placeholder (score lowest float instead of -inf)',
 'C10-r3m1': 'k>=2 and a k-best derivation differing from a better one only below a unary node',
 'C10-r3m2': 'k>=2 and a unary node X->Y directly above a binary node whose left child has category Y',
 'C10-r3m3': 'k>=2, a constituent with two derivations of one category whose sibling is popped after both',
 'C11-r3m1': 'second parsing.run call with the same category list after a call that created a new category',
 'C11-r3m2': 'rule cache reaching 4,000,000 entries in the middle of a sentence',
 'C11-r3m3': 'tag and dependency matrices that agree with each other but belong to another token count',
 'C12-r3m1': 'children whose results differ only in features (, + S[ng]\\NP): guess matches feature-blind',
 'C12-r3m2': '1-best mode, pair with >=3 results two of which share a category, node built from a later one',
 'C12-r3m3': 'of_nltk_tree called after set_global_language_to(ja) (default argument bound at import)',
 'C13-r3m1': 'a hashed functor garbage collected and another allocated at the same address (hash memo by id)',
 'C13-r3m2': 'erased feature on the argument side of a functor whose result side has nothing to erase',
 'C13-r3m3': 'one functor with | where the other has / or \\ (^ treats | as wildcard: not transitive)',
 'C14-r3m1': 'atomic NP[nb] argument copied into the result (nb cleared only inside functors)',
 'C14-r3m2': 'Japanese grammar with an empty seen-rule set',
 'C14-r3m3': 'unary table listing a category among its own targets',
 'C15-r3m1': 'token containing a comma alongside other characters (1,000)',
 'C15-r3m2': 'sentence with two value-equal tokens (terminal offset looked up by value)',
 'C15-r3m3': 'token whose word is exactly -LRB- or -RRB- read by read_xml',
 'C16-r3m1': 'filter on, last word less confident than an earlier word (one threshold for all words)',
 'C16-r3m2': 'use_beta=False and a needed tag with ratio below 1e-5 inside the pruning_size best (filter silently stays on)',
 'C16-r3m3': 'filter on, sentence with no derivation inside the beta beam but one inside pruning_size (silent retry)',
 'C17-r3m1': 'the dictionary returned by read_params applied a second time (iterators exhausted)',
 'C17-r3m2': 'an empty dictionary (the shipped ja configuration)',
 'C17-r3m3': 'moderate large_negative_value or non-finite scores (mask added instead of assigned)',
 'C18-r3m1': 'token carrying a key named start/span/cat, xml rendered first',
 'C18-r3m2': 'ja format rendered in an English session (sets the global language)',
 'C18-r3m3': 'token lacking lemma/pos/entity/chunk rendered by auto_extended first (Token.__missing__ stores defaults)',
 'C19-r3m1': 'CLI format choice auto_flattened that to_string does not know',
 'C19-r3m2': 'ja batch containing a failed sentence rendered as prolog',
 'C19-r3m3': 'sentence longer than max_length (empty result list instead of the placeholder), html / jigg_xml',
 'C20-r3m1': 'token containing an unmatched ( in a tree that is not the last line of the file',
 'C20-r3m2': 'annotated bank line whose leaf suffix contains two or more underscores',
 'C20-r3m3': 'leaf token whose surf differs from its word',
})
HISTORY.update({
 'C01-r3m1': 'missed at first: cases with step budgets of the order of what a sentence needs added',
 'C01-r3m3': 'missed at first by C01 (caught by C04); now also caught by C01 real-grammar cases',
 'C02-r3m1': 'missed at first because run:raises was not owned by the search checks (ownership bug in vlib/search.py, fixed)',
 'C02-r3m3': 'missed at first: empty root sets added',
 'C05-r3m3': 'missed at first: feature values spelled like punctuation categories added',
 'C06-r3m1': 'missed at first: patterns are now also passed as Category objects',
 'C08-r3m2': 'missed at first: POS values with brackets / angle characters added',
 'C08-r3m3': 'missed at first: special tokens (->-, -<-, (), ...) added to the hostile token set',
 'C11-r3m1': 'missed at first: the caller\'s category/root lists are now handed over as they are and compared afterwards',
 'C11-r3m2': 'NOT caught: needs 4,000,000 rule-cache entries within one call - beyond every budget of this framework',
 'C11-r3m3': 'missed at first: shape mode "both matrices for another length" added',
 'C12-r3m2': 'first reported as inconclusive (smoke batch raised); the smoke batch no longer decides, run:raises is owned by every search check',
 'C12-r3m3': 'missed at first: modules imported before the language is chosen; nltk-style trees read under both languages',
 'C14-r3m2': 'missed at first: empty seen-rule sets added',
 'C14-r3m3': 'missed at first: unary tables listing a category among its own targets added',
 'C17-r3m1': 'missed at first: the check inspected (and thereby consumed) the dictionary itself; expectations now come from the shipped file, dictionary applied twice',
 'C18-r3m1': 'missed at first: tokens with extra keys added',
 'C18-r3m2': 'missed at first: ja format rendered in the English session, session language monitored',
 'C18-r3m3': 'missed at first: word-only tokens added',
 'C19-r3m3': 'missed at first by C19 (caught by C11): placeholder also obtained through the max_length path',
 'C20-r3m3': 'missed at first: Japanese tokens whose surf differs from word added',
})
EXTRA.update({'C01-r3m3': ['C04'], 'C19-r3m3': ['C11'], 'C20-r3m3': ['C07']})
NEEDS.update({
 'C01-r4m1': 'a sentence that fails with tags still queued, followed by another sentence in the same process (static tag queues)',
 'C01-r4m2': 'two tags of a token with exactly equal scores straddling the pruning_size cut (tie broken differently)',
 'C01-r4m3': 'a token whose largest dependency score is its own column (leaf outside estimate skips self arcs)',
 'C02-r4m1': 'a non-empty failed sentence followed by another one, consumed through iter_parse_results',
 'C02-r4m2': 'two consecutive same-length sentences in one process where the beam left tags behind',
 'C02-r4m3': 'use_beta on with beta exactly 0 and a zero-probability tag inside pruning_size',
 'C03-r4m1': ', ; conj followed by T/(T/X) or T\\(T\\X) (type-raised test requires opposite slashes)',
 'C03-r4m2': 'both inputs punctuation atoms (rp result missing)',
 'C03-r4m3': 'gbx with a modifier on the right (modifier test on the wrong input)',
 'C04-r4m1': '>Bx2 with a non-modifier primary and a secondary (B\\C)\\D: outer slash taken from the primary',
 'C04-r4m2': 'unary input (S[mod=adv]\\NP)\\NP labelled ADV0',
 'C04-r4m3': 'any >Bx3 application (symbol >Bx2)',
 'C05-r4m1': 'two unbracketed slashes at the top level (folded right-associatively)',
 'C05-r4m2': 'three-part feature with a repeated key',
 'C05-r4m3': 'category text with more than 64 bracket/slash characters (re flag passed as count)',
 'C06-r4m1': '| in the pattern facing / in the input',
 'C06-r4m2': 'a shared variable that occurs twice inside one pattern',
 'C06-r4m3': 'three-part features with different key sets at a shared position',
 'C07-r4m1': 'Japanese prolog with a <B4 node',
 'C07-r4m2': 'jigg_xml with a unary node spanning two or more words (end offset)',
 'C07-r4m3': 'token without lemma/pos, conll printed before another format (setdefault)',
 'C08-r4m1': 'a field ending in [conj] directly after an atom (NP[conj], x[conj])',
 'C08-r4m2': 'a token that is exactly ( or ) (reader un-escapes)',
 'C08-r4m3': 'derivable binary node printed with the head direction opposite to its rule',
 'C09-r4m1': 'unary node built from the 2nd or later unary result of its child, non-zero penalty',
 'C09-r4m2': '1-best: a span gets one category twice with different heads and the later has the higher inside score',
 'C09-r4m3': 'filter off and a returned leaf with a tag score below about -95',
 'C10-r4m1': 'head-left grammar, k < #derivations, right child accepted after its left sibling with a much lower best dependency',
 'C10-r4m2': 'head-right grammar and a token whose best dependency is the last token',
 'C10-r4m3': 'k = 1, >= 65 category ids, two categories congruent mod 64 over one span',
 'C11-r4m1': 'dependency matrix with the right number of rows but wrong columns',
 'C11-r4m2': 'pool path with more processes than sentences',
 'C11-r4m3': 'a sentence longer than 50 tokens earlier in the call and a later sentence needing a tag ranked 21st-50th',
 'C12-r4m1': 'unary result whose symbol is not <un> (every Japanese unary rule)',
 'C12-r4m2': 'pair with >= 2 results of different categories in non-ascending id order (results sorted before caching)',
 'C12-r4m3': 'Jigg XML read while the active grammar is Japanese (head flag dropped)',
 'C13-r4m1': 'functor containing | passed through clear_features',
 'C13-r4m2': 'functors with the same atoms and slashes in order but different bracketing',
 'C13-r4m3': 'functor hashed, pickled and unpickled under another PYTHONHASHSEED',
 'C14-r4m1': 'fa/ba call that binds [X] followed by one whose result has an unbound [X] (matcher objects reused)',
 'C14-r4m2': 'seen-rule set given and a right-hand category carrying [nb]',
 'C14-r4m3': 'unary table listing the same target twice',
 'C15-r4m1': 'token attribute containing & < or > (escaped twice)',
 'C15-r4m2': 'derivation with more than 10 spans where child ids straddle sp9/sp10 (string sort)',
 'C15-r4m3': 'Japanese token carrying word and a different surf',
 'C16-r4m1': 'derivation needing exactly the (pruning_size+1)-th best tag',
 'C16-r4m2': 'pruning_size >= num_tags with the filter on (fast path skips the threshold)',
 'C16-r4m3': 'filter on and a word whose best head probability differs from its best tag probability',
 'C17-r4m1': 'second call with the same dictionary object and a reordered category list of equal length',
 'C17-r4m2': 'float64 score matrices (filtered copies, caller arrays untouched)',
 'C17-r4m3': 'dictionary entry with duplicate categories whose length reaches the number of categories',
 'C18-r4m1': 'token that is a bracket or contains < >, auto/conll/ptb rendered first (escaped word written back)',
 'C18-r4m2': 'annotated tokens, jigg_xml rendered first (keys renamed and renamed back: order changes)',
 'C18-r4m3': 'Japanese tokens carrying word and surf, jigg_xml rendered first',
 'C19-r4m1': 'batch containing the failure placeholder rendered as conll',
 'C19-r4m2': 'max_step runs out with items on the agenda (empty result list)',
 'C19-r4m3': 'batch containing the failure placeholder rendered as auto',
 'C20-r4m1': 'bank line whose leaf categories carry {..} annotations',
 'C20-r4m2': 'token containing the sequence )(',
 'C20-r4m3': 'token that NFC normalisation changes',
})
HISTORY.update({
 'C01-r4m2': 'NOT caught, by design: which of two exactly tied tags at the beam boundary is admitted is not determined by the property (must/may sets are neutral on ties)',
 'C02-r4m1': 'caught by C11 (pairing monitor), not by C02',
 'C02-r4m3': 'NOT caught, by design: beta = 0 lies outside the stated range (0,1); with beta 0 a zero-probability tag is not below beta x best',
 'C05-r4m2': 'missed at first: a triple with a repeated key added to the alphabet',
 'C06-r4m2': 'missed at first: patterns with a variable repeated on one side are now generated and judged for the necessary condition',
 'C06-r4m3': 'missed at first: atoms whose triple has the other key set added',
 'C07-r4m1': 'missed at first: arbitrary trees may now carry labels that are not reachable from the tag inventory (<B4)',
 'C07-r4m2': 'missed at first by C07 (caught by C15): jigg span-offset problems are now reported by C07 too',
 'C07-r4m3': 'a mutation defect: caught by C18, not by C07 (C07 renders deep copies)',
 'C08-r4m1': 'missed at first: [conj] categories and a token ending in [conj] added',
 'C08-r4m3': 'missed at first: head fields flipped on derivable nodes in C08 as well',
 'C10-r4m3': 'missed at first: large category tables added to C01 and C10',
 'C11-r4m2': 'missed at first: pool calls with more processes than sentences added',
 'C11-r4m3': 'missed at first: long-then-wide batch (a 51+ token sentence, then sentences needing tags ranked 23rd-26th) added',
 'C13-r4m3': 'missed at first: pickle shard (categories hashed and pickled under another hash seed) added',
 'C14-r4m1': 'missed at first: every pair is applied again in reverse order at the end of the shard',
 'C17-r4m2': 'missed at first: float64 matrices added',
 'C19-r4m2': 'missed at first: empty result lists are violations everywhere; placeholder also taken from an exhausted step budget',
})
EXTRA.update({'C02-r4m1': ['C11'], 'C07-r4m3': ['C18'], 'C10-r4m3': ['C01']})
NEEDS.update({
 'C01-r5m1': 'unary_penalty passed as exactly 0 (resolved with "or 0.1")',
 'C01-r5m2': 'best/only derivation needs a unary rule over a constituent of two or more tokens',
 'C01-r5m3': 'pool path: sentences dealt round-robin but gathered chunk after chunk',
 'C02-r5m1': 'best tag of a token underflows exp (or beta >= 1): top-ranked tag always pushed',
 'C02-r5m2': 'pool path with imap_unordered and a later chunk finishing first',
 'C02-r5m3': 'nbest > pruning_size (beam widened to nbest inside the search)',
 'C03-r5m1': 'a pair binding [X] through a rule, later a pair through the same rule whose [X] is not re-bound (matcher reused)',
 'C03-r5m2': 'a functor taking a punctuation atom as its argument (N/, + ,)',
 'C03-r5m3': 'left input (B/C)\\D with right input A\\B: gbx skipped by an outer-slash pre-filter',
 'C04-r5m1': 'mod=adv unary input with three or more arguments (label ADV3)',
 'C04-r5m2': '>Bx3 with a non-modifier primary and D != E (arguments swapped)',
 'C04-r5m3': 'a pair binding a variable triple through a rule, later a pair that merely carries that triple (matcher reused)',
 'C05-r5m1': 'two unbracketed slashes at one level where a later operand is bracketed: S/(NP)/NP',
 'C05-r5m2': 'round and angle brackets nested inside each other',
 'C05-r5m3': 'angle pair directly enclosing an unreduced x slash y',
 'C06-r5m1': 'shared variable bound to a functor: first leaf compatible, a later leaf clashing',
 'C06-r5m2': 'first input fits, second fails in the shape phase, then a binding is read',
 'C06-r5m3': 'first input has no feature (or nb) where the second has X: bindings get [X] on feature-less atoms',
 'C07-r5m1': 'deriv with an East Asian wide-character token wider than its category (columns mis-aligned)',
 'C07-r5m2': 'English prolog with a category carrying [X] (lower-cased into a concrete feature)',
 'C07-r5m3': 'batch whose sentences have different n-best counts (line formats mis-numbered)',
 'C08-r5m1': 'leaf whose POS tag is literally POS',
 'C08-r5m2': 'word or tag containing ID=',
 'C08-r5m3': 'token that is exactly < or >',
 'C09-r5m1': 'right-headed binary node whose left child enters the chart after its right child',
 'C09-r5m2': 'negative unary penalty (clamped at 0)',
 'C09-r5m3': 'second parse in the same process with a different unary penalty (static const)',
 'C10-r5m1': 'k = 1 and a (span, category) with two derivations where the worse one is generated first (dedup at push)',
 'C10-r5m2': 'filter off and a k-best derivation needing a tag with log score below about -87',
 'C10-r5m3': 'acyclic unary chain of three rules needed by one of the k best',
 'C11-r5m1': 'pool path with > 20 sentences whose length-sort permutation has a cycle of length >= 3',
 'C11-r5m2': 'empty sentence with mis-shaped score matrices',
 'C11-r5m3': 'pool path with two or more over-long sentences and an ordinary one after the first',
 'C12-r5m1': 'pair with >= 2 results, left child accepted after the right child (rule index of the wrong item)',
 'C12-r5m2': 'any node made by the English left-punctuation rule (head forced right)',
 'C12-r5m3': 'right-headed tree crossing a pickle boundary (__reduce__ drops head_is_left)',
 'C13-r5m1': 'two triples with the same pairs in a different order',
 'C13-r5m2': 'category with [nb] and a set of erased names that does not include nb',
 'C13-r5m3': 'atom with a punctuation base carrying a feature compared with the bare symbol',
 'C14-r5m1': 'NP/PP unary key whose targets list a type-raising target before another one (order lost)',
 'C14-r5m2': 'caller mutates the returned list, then applies an equal pair again (cached list returned)',
 'C14-r5m3': 'seen-rule set given, both categories punctuation atoms, pair not in the set',
 'C15-r5m1': 'token starting with an underscore and containing logic punctuation',
 'C15-r5m2': 'token attribute containing |',
 'C15-r5m3': 'derivation that is a single leaf read by read_xml',
 'C16-r5m1': 'a call with a small beta followed in the same process by a call with a larger beta (static log_beta)',
 'C16-r5m2': 'one-word sentence whose best root-capable tag lies outside the beam (fast path)',
 'C16-r5m3': 'pruning_size exactly 1 (treated as a fraction)',
 'C17-r5m1': 'dictionary entry whose category list is empty (row left untouched)',
 'C17-r5m2': 'inventory of more than 256 categories (uint8 indices wrap)',
 'C17-r5m3': 'two different dictionaries sharing a word applied one after the other with the same inventory',
 'C18-r5m1': 'json first: tokens gain a cat key',
 'C18-r5m2': 'prolog rendered a second time in the same process (header only once)',
 'C18-r5m3': 'Japanese session, jigg_xml first (op_string overwritten by the symbol)',
 'C19-r5m1': 'English prolog with a type-raising step',
 'C19-r5m2': 'html with a token containing { or }',
 'C19-r5m3': 'a long sentence (about 170 words) with a chain-like derivation (deepcopy recursion)',
 'C20-r5m1': 'a ( or ) token tagged with a category other than LRB/RRB',
 'C20-r5m2': 'annotated bank line with two-digit dependency variables',
 'C20-r5m3': 'token containing # in a .ptb file (comment stripping)',
})
HISTORY.update({
 'C01-r5m3': 'a pool-path defect: caught by C11, not by C01',
 'C02-r5m1': 'NOT caught, by design: the best tag of a word is never below beta x best; when exp() underflows the must/may sets leave open whether it is admitted',
 'C02-r5m2': 'a pool-path defect: caught by C11, not by C02',
 'C02-r5m3': 'missed at first by C02 (caught by C16): beam cases with n-best added to C02',
 'C04-r5m1': 'missed at first: labels for shapes the statement does not single out must still be among the labels it names',
 'C08-r5m1': 'missed at first: POS value POS added',
 'C08-r5m2': 'missed at first: tokens containing ID= added',
 'C09-r5m2': 'missed at first: negative unary penalties added to C09',
 'C10-r5m2': 'missed at first: extreme rows added to C10',
 'C11-r5m2': 'missed at first: shape mode "empty sentence with mis-shaped matrices" added',
 'C12-r5m3': 'missed at first by C12 (caught by C11): returned trees are pickled and compared in C12',
 'C13-r5m3': 'missed at first: punctuation bases carrying a feature, compared with the bare symbol, added',
 'C14-r5m1': 'missed at first: NP/PP unary tables mixing type-raising and other targets added',
 'C14-r5m2': 'missed at first: the returned list is modified by the harness before the second call',
 'C19-r5m2': 'missed at first by C19 (caught by C07): English tokens of C19 now range over the English formats\' domain (braces allowed)',
 'C19-r5m3': 'missed at first: 170-word chain derivations rendered under the default recursion limit',
 'C20-r5m2': 'missed at first: two-digit dependency variables in the injected annotations',
})
EXTRA.update({'C01-r5m3': ['C11'], 'C02-r5m2': ['C11'], 'C02-r5m3': ['C16'], 'C12-r5m3': ['C11'], 'C19-r5m2': ['C07']})
NEEDS.update({
 'C01-r6m1': 'sentence of at least 256 tokens (span fields stored in one byte)',
 'C01-r6m2': 'tag whose probability equals beta x best exactly',
 'C01-r6m3': 'several sentences in one call whose accumulated pops exceed max_step (budget counted down in the shared config)',
 'C02-r6m1': 'pool path with len(doc) not divisible by processes (overlapping chunks)',
 'C03-r6m1': 'consumed argument is a functor whose two occurrences differ in a slash (^ ignores the slash)',
 'C03-r6m2': 'gfc with a right input whose inner functor is backward',
 'C04-r6m1': '< with a modifier-shaped left argument and a non-modifier right functor',
 'C04-r6m2': '>B with a non-modifier primary (builds a backslash)',
 'C04-r6m3': '> with a non-modifier functor (head flag left)',
 'C05-r6m1': 'two or more consecutive blanks next to an atom or feature',
 'C05-r6m2': 'atom whose empty feature is equal to but not identical with the default instance (fresh object, deep copy, pickle)',
 'C05-r6m3': 'a typo in a shipped seen-rules file (S[poss) accepted silently by the reader',
 'C06-r6m1': 'shared variable bound to functors with the same result and slash but a different argument',
 'C06-r6m2': 'binding read for a sub-category containing a | slash (rebuilt with a backslash)',
 'C07-r6m1': 'xml for any batch other than 1x1 (sentence and tree index swapped)',
 'C07-r6m2': 'html for a category with a three-part feature',
 'C07-r6m3': 'conll for a token whose lemma contains a cased letter',
 'C08-r6m1': 'token with a compatibility character (NFKC normalised on reading)',
 'C09-r6m1': 'sentence of more than 256 tokens (head index in 8 bits)',
 'C09-r6m2': 'pool path with a unary penalty other than 0.1 and a unary node',
 'C09-r6m3': 'an arc whose dependency score is strictly positive',
 'C10-r6m1': 'two tags of a token with bit-identical scores, the larger id needed',
 'C10-r6m2': 'needed unary rule above a category that is not in the tag list',
 'C10-r6m3': 'k >= 2 on the pool path (nbest not forwarded)',
 'C11-r6m1': 'second or later sentence of one call with a non-default search option (config re-initialised per sentence)',
 'C11-r6m2': 'category list length differing from the number of tag columns',
 'C11-r6m3': 'over-long sentence that is not the first of its call',
 'C12-r6m1': 'rule whose symbol is not ASCII (<Φ>)',
 'C12-r6m2': 'two binary rules with the same label but different symbols in one process',
 'C12-r6m3': 'Jigg XML whose rule attribute is not the grammar label',
 'C13-r6m1': 'category produced by clear_features compared with a string or printed (cached text)',
 'C13-r6m2': 'triple feature named by its own text among the erased names',
 'C13-r6m3': 'two triples identical except for the numbering of a variable value',
 'C14-r6m1': 'seen-rule set given, pair licensed and a category carrying nb or X (raw pair added to the caller\'s set)',
 'C14-r6m2': 'pair with two or more results compared across PYTHONHASHSEED values (results collected in a set)',
 'C14-r6m3': 'Japanese pairs where two different variable triples meet crosswise (recursion in the binding lookup)',
 'C15-r6m1': 'token attribute that is the empty string',
 'C15-r6m2': 'Japanese token with compatibility characters read by read_jigg_xml',
 'C15-r6m3': 'unary node over two or more tokens (span width)',
 'C16-r6m1': 'two tags of a word with bit-identical scores inside the beam',
 'C16-r6m2': 'the highest category id among a word\'s pruning_size best tags',
 'C17-r6m1': 'one sentence passed without the outer list',
 'C17-r6m2': 'same dictionary applied to a later batch whose matrix lands on the address of a dropped one',
 'C17-r6m3': 'the en_rebank configuration evaluated (typo in an inline unary rule)',
 'C18-r6m1': 'derivation with a tr step under a parent with a concrete feature, jigg_xml first',
 'C18-r6m2': 'English unary node, deriv first then a symbol-printing format',
 'C18-r6m3': 'n-best list of two or more trees, html before a score-printing format',
 'C19-r6m1': 'Japanese session with format ptb',
 'C19-r6m2': 'format ja with tokens lacking pos1..3 or the inflection keys',
 'C20-r6m1': 'node or leaf whose category string ends with )',
 'C20-r6m2': 'token containing / printed as PTB',
 'C20-r6m3': 'token that is exactly * or _',
})
HISTORY.update({
 'C01-r6m2': 'NOT caught, by design: a tag whose probability equals beta x best is not below it',
 'C01-r6m3': 'a history defect: caught by C11 (small step budgets in batches), not by C01 (one sentence per call)',
 'C02-r6m1': 'a pool-path defect: caught by C11',
 'C05-r6m2': 'missed at first: values rebuilt from fresh default-feature objects and deep copies are printed too',
 'C05-r6m3': 'missed at first: a shipped string the reference reader rejects was only counted; it is a violation now (also caught by C17)',
 'C07-r6m3': 'missed at first: lemmas were always lower case',
 'C09-r6m1': 'missed at first: a sentence of more than 256 words added to C09 and C01',
 'C09-r6m2': 'a pool-path defect: caught by C11',
 'C09-r6m3': 'missed at first: unnormalised (partly positive) scores added to C09',
 'C10-r6m3': 'a pool-path defect: caught by C11 once n-best batches were added to its pool cases',
 'C12-r6m1': 'missed at first: non-ASCII symbols in the synthetic grammars',
 'C13-r6m1': 'missed at first: the erasure contract now also compares the printed text and string equality of the result',
 'C13-r6m2': 'missed at first: three-part features named by their own text are part of the domain now',
 'C14-r6m3': 'missed at first: crosswise variable triples added',
 'C15-r6m1': 'missed at first: empty attribute values added (C15 only: blank-separated formats cannot carry them)',
})
EXTRA.update({'C01-r6m3': ['C11'], 'C02-r6m1': ['C11'], 'C09-r6m2': ['C11'], 'C10-r6m3': ['C11'], 'C05-r6m3': ['C17']})


def main(only=None):
    rows = []
    os.makedirs(os.path.join(VERIF, 'seeded'), exist_ok=True)
    todo = []
    for src, tag in SOURCES:
        if not os.path.isdir(src):
            continue
        for prop in sorted(os.listdir(src)):
            pd = os.path.join(src, prop)
            if not (os.path.isdir(pd) and prop.startswith('C')):
                continue
            for m in sorted(os.listdir(pd)):
                if os.path.isfile(os.path.join(pd, m, 'patch.diff')):
                    todo.append((prop, os.path.join(pd, m), f'{prop}-{tag}{m}'))
    for prop, d, sid in todo:
        if True:
            if False:
                continue
            if only and sid not in only and not any(sid.startswith(o) for o in only if o.endswith('*')) and not any(o.rstrip('*') in sid for o in only if o.endswith('*')):
                continue
            dst = os.path.join(VERIF, 'seeded', sid)
            os.makedirs(dst, exist_ok=True)
            for fn in os.listdir(d):
                src = os.path.join(d, fn)
                if os.path.isfile(src) and os.path.getsize(src) < 200000 and not fn.endswith(('.so', '.o', '.bin')) and '.' in fn:
                    shutil.copy(src, os.path.join(dst, fn))
            # helpers the agent kept one directory up are copied next to the demo (only the path line of the demo is adapted)
            parent_common = os.path.join(os.path.dirname(d), 'common.py')
            for demo_name in ('demo.py', 'after_search.py'):
                dp = os.path.join(dst, demo_name)
                if os.path.exists(parent_common) and os.path.exists(dp):
                    txt = open(dp).read()
                    pat = 'os.path.dirname(os.path.dirname(os.path.abspath(__file__)))'
                    if pat in txt:
                        shutil.copy(parent_common, os.path.join(dst, 'common.py'))
                        open(dp, 'w').write(txt.replace(pat, 'os.path.dirname(os.path.abspath(__file__))'))
            checks = [prop] + EXTRA.get(sid, [])
            r = subprocess.run([os.path.join(VERIF, 'tools', 'try_seed.py'), dst] + checks, capture_output=True, text=True)
            try:
                res = json.loads(r.stdout)
            except Exception:
                res = {'error': r.stdout[-500:] + r.stderr[-500:]}
            keep = bool(res.get('applies') and res.get('tests_pass') and res.get('demo_ok'))
            meta = {
                'id': sid, 'breaks_property': prop, 'needs_to_manifest': NEEDS.get(sid, 'see notes.md'),
                'written_by': 'independent sub-agent given only the property text and a scratch worktree',
                'confirmed': {'patch_applies_to_repo_HEAD': res.get('applies'), 'pinned_suite': res.get('tests'),
                              'demo': res.get('demo'), 'demo_fails_with_change_and_passes_without': res.get('demo_ok')},
                'what_i_ran': f'tools/try_seed.py seeded/{sid} ' + ' '.join(checks) + '  (scratch worktree of /repo HEAD, VERIF_REPO pointing at it)',
                'checks': res.get('checks'), 'caught_by': sorted(c for c, v in (res.get('checks') or {}).items() if v.get('rc') == 1),
                'history': HISTORY.get(sid, ''),
            }
            json.dump(meta, open(os.path.join(dst, 'meta.json'), 'w'), indent=1)
            if not keep:
                print('NOT CONFIRMED', sid, res.get('applies'), res.get('tests'), res.get('demo_ok'))
            rows.append(meta)
            print(sid, 'caught_by', meta['caught_by'], flush=True)
    return rows


def summary():
    rows = []
    base = os.path.join(VERIF, 'seeded')
    for sid in sorted(os.listdir(base)):
        mp = os.path.join(base, sid, 'meta.json')
        if os.path.exists(mp):
            rows.append(json.load(open(mp)))
    with open(os.path.join(base, 'SUMMARY.md'), 'w') as f:
        f.write('# Seeded property-breaking changes (written by independent sub-agents) and which checks catch them\n\n')
        f.write('Generated by tools/store_seeds.py. Every change keeps the pinned suite at 3583 passed; every demo fails with the change and passes without.\n\n')
        f.write('| seed | needs, in order to manifest | caught by (mechanism keys) | note |\n|---|---|---|---|\n')
        for m in rows:
            keys = '; '.join(f"{c}: {', '.join(v.get('keys', []))}" for c, v in (m.get('checks') or {}).items() if v.get('rc') == 1) or '**missed**'
            f.write(f"| {m['id']} | {m['needs_to_manifest']} | {keys} | {m.get('history', '')} |\n")
        n = len(rows)
        c = sum(1 for m in rows if m['caught_by'])
        f.write(f'\n{c} of {n} seeded changes are caught by the quick tier of the property they were written against (or a listed neighbour).\n')
    print('summary written', len(rows))


if __name__ == '__main__':
    if sys.argv[1:] and sys.argv[1] == 'summary':
        summary()
    else:
        main(set(sys.argv[1:]) or None)
        summary()

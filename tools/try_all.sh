#!/bin/bash
# tools/try_all.sh <prop>...  : run every seed under /tmp/seedout/<prop>/m* against its own property's check
mkdir -p /tmp/seedres
for p in "$@"; do
  for d in ${SEEDSRC:-/tmp/seedout}/$p/m*; do
    [ -f $d/patch.diff ] || continue
    n=$(basename $d)
    /verif/tools/try_seed.py $d $p > ${SEEDRES:-/tmp/seedres}/$p-$n.json 2>${SEEDRES:-/tmp/seedres}/$p-$n.err
    python3 - $p $n <<'PY'
import json,sys
p,n=sys.argv[1:]
try:
    r=json.load(open(f'${SEEDRES:-/tmp/seedres}/{p}-{n}.json'))
    c=r['checks'].get(p,{})
    print(p,n,'tests_pass=',r.get('tests_pass'),'demo_ok=',r.get('demo_ok'),'rc=',c.get('rc'),'keys=',c.get('keys'),c.get('inconclusive'))
except Exception as e:
    print(p,n,'ERROR',e)
PY
  done
done

#!/bin/bash
# tools/try_all.sh <prop>...  : run every seed under $SEEDSRC/<prop>/m* against its own property's check
SRC=${SEEDSRC:-/tmp/seedout}; RES=${SEEDRES:-/tmp/seedres}; mkdir -p $RES
for p in "$@"; do
  for d in $SRC/$p/m*; do
    [ -f $d/patch.diff ] || continue
    n=$(basename $d)
    /verif/tools/try_seed.py $d $p > $RES/$p-$n.json 2>$RES/$p-$n.err
    python3 -c "
import json,sys
p,n,res=sys.argv[1:]
try:
    r=json.load(open(f'{res}/{p}-{n}.json')); c=r['checks'].get(p,{})
    print(p,n,'tests_pass=',r.get('tests_pass'),'demo_ok=',r.get('demo_ok'),'rc=',c.get('rc'),'keys=',c.get('keys'),c.get('inconclusive'))
except Exception as e:
    print(p,n,'ERROR',e)
" $p $n $RES
  done
done
